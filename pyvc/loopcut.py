"""Cutting loops by a sidecar invariant (the unbounded route for loops whose trip count is
symbolic).

The contract supplies, per function and loop ordinal (source order of `for`/`while`
statements inside the function), a LoopSpec.  `transform` rewrites ONLY that statement:

    for TARGET in ITER:                 __pv0 = __pyvc__.enter("f", 0, ITER, locals())
        BODY                   ==>      (m1, m2, ...) = __pv0.havoc()
    [else: ORELSE]                      for TARGET in __pv0:
                                            BODY
                                        [else: ORELSE]

    while COND:                         __pv0 = __pyvc__.enter("f", 0, None, locals())
        BODY                   ==>      (m1, m2, ...) = __pv0.havoc()
                                        while __pv0.again() and COND:
                                            BODY

Semantics of the cut (standard): `enter` checks the invariant on entry (obligation
inv:K:init); `havoc` replaces the variables the body assigns - and whatever heap state the
spec's `havoc` function says the body mutates - by arbitrary values that satisfy the
invariant, at an arbitrary iteration index i; the loop then runs AT MOST ONE iteration:
if it is entered, the end of the body (or `continue`) re-checks the invariant for i+1
(obligation inv:K:step) and ends the path; if it is not entered (i == n, or COND false) the
code after the loop continues from "invariant and exit condition".  `break` and `return`
inside the body behave as written.  Termination is not proved.

What is checked mechanically: every NAME the body stores to is listed in `modifies` (else
the transformation refuses).  What is trusted from the spec: the list of heap objects the
body mutates (spec.havoc must havoc them) - stated in DESIGN.md.
"""
from __future__ import annotations

import ast
import sys
from types import SimpleNamespace

import z3

from . import sym
from .sym import SymBool, SymNum, Unsupported, ctx


class LoopSpec:
    def __init__(self, modifies, invariant, havoc, seq=None, name=None, ghost=None):
        """modifies : names assigned in the body (the loop target is added automatically)
        invariant(env, i, n) -> truth value; env = namespace of the function's locals
        havoc(S, env, i, n) -> {name: fresh value} for every name in `modifies`
                               (may also mutate heap objects reachable from env)
        seq(env, iterable) -> (n, at) : length and element-at-index of the iterated
                               sequence (default: range objects and models with __symlen__/at)"""
        self.modifies = list(modifies)
        self.invariant = invariant
        self.havoc = havoc
        self.seq = seq
        self.name = name
        self.ghost = ghost      # ghost(env0) -> namespace of values captured at loop entry (env.g)


class PathEnd(BaseException):
    """The single iteration of a cut loop finished and the invariant was re-established."""


class LoopObligationFailed(BaseException):
    def __init__(self, name, what):
        self.name, self.what = name, what


ACTIVE: dict = {}          # {(qualname, ordinal): LoopSpec}, set by pyvc.core before a run


class _Fresh:
    """Factory handed to spec.havoc"""

    def __init__(self, c):
        self.c = c

    def int(self, hint="h", lo=None, hi=None):
        v = self.c.fresh_int(hint)
        if lo is not None:
            self.c.assume_term(v.t >= lo)
        if hi is not None:
            self.c.assume_term(v.t <= hi)
        return v

    def real(self, hint="h"):
        return self.c.fresh_real(hint)

    def bool(self, hint="h"):
        return self.c.fresh_bool(hint)


def _check(name, value):
    """Discharge an invariant obligation on the current path."""
    c = ctx()
    c.loop_obligations.append(name)
    if isinstance(value, SymBool):
        r = c._check(z3.Not(value.t))
        if r == z3.unsat:
            return
        if r == z3.sat:
            raise LoopObligationFailed(name, "invariant not implied by the path condition")
        raise Unsupported("loop obligation %s undecided (solver unknown)" % name)
    if not value:
        raise LoopObligationFailed(name, "invariant evaluates to False")


def _default_seq(iterable):
    if isinstance(iterable, range):
        if iterable.step != 1 or iterable.start != 0:
            raise Unsupported("cut loop over a range with start/step")
        return iterable.stop, (lambda i: i)
    if isinstance(iterable, SymRange):
        return iterable.n, iterable.at
    if hasattr(iterable, "__symlen__") and hasattr(iterable, "at"):
        return iterable.__symlen__(), iterable.at
    raise Unsupported("cut loop over %s" % type(iterable).__name__)


class SymRange:
    """range(start, stop, step) with a symbolic stop (start, step concrete, step > 0), bound as
    `range` in the shadow namespace of a cut function: n = ceil((stop - start) / step) items."""

    def __init__(self, stop, start=0, step=1):
        self.start, self.stop, self.step = start, stop, step
        span = stop - start
        n = (span + (step - 1)) // step if step != 1 else span
        self.n = sym.Ite(span > 0, n, 0) if isinstance(span, SymNum) else max(0, n)

    def at(self, i):
        return self.start + i * self.step

    def __iter__(self):
        raise Unsupported("iteration over range(symbolic) outside a cut loop")


def range_(*a):
    def conc(x):
        return x.concrete() if isinstance(x, SymNum) else x

    if len(a) == 1 and conc(a[0]) is None:
        return SymRange(a[0])
    if len(a) in (2, 3) and conc(a[0]) is not None and conc(a[1]) is None and (len(a) == 2 or (conc(a[2]) or 0) > 0):
        return SymRange(a[1], conc(a[0]), conc(a[2]) if len(a) == 3 else 1)
    return range(*[x.__index__() if isinstance(x, SymNum) else x for x in a])


class _Cut:
    def __init__(self, fn, k, spec, iterable, loc):
        self.fn, self.k, self.spec = fn, k, spec
        self.tag = "%d" % k
        self.env0 = SimpleNamespace(**loc)
        self.g = spec.ghost(self.env0) if spec.ghost else None
        self.env0.g = self.g
        if iterable is not None:
            self.n, self.at = spec.seq(self.env0, iterable) if spec.seq else _default_seq(iterable)
        else:
            self.n, self.at = None, None
        _check("inv:%s:init" % self.tag, spec.invariant(self.env0, 0, self.n))
        self.phase = 0
        self.i = None

    def havoc(self):
        c = ctx()
        self.i = c.fresh_int("i")
        c.assume_term(self.i.t >= 0)
        if self.n is not None:
            c.assume(self.i <= self.n)
        vals = self.spec.havoc(_Fresh(c), self.env0, self.i, self.n)
        missing = [m for m in self.spec.modifies if m not in vals]
        if missing:
            raise Unsupported("loop spec does not havoc %s" % missing)
        env = SimpleNamespace(**{**self.env0.__dict__, **vals})
        c.assume(self.spec.invariant(env, self.i, self.n))
        out = tuple(vals[m] for m in self.spec.modifies)
        return out if len(out) != 1 else (out[0],)

    # -- for loops ------------------------------------------------------------
    def __iter__(self):
        return self

    def __next__(self):
        if self.phase == 0:
            self.phase = 1
            if bool(self.i < self.n):
                return self.at(self.i)
            raise StopIteration
        self._step(sys._getframe(1).f_locals)

    # -- while loops -----------------------------------------------------------
    def again(self):
        if self.phase == 0:
            self.phase = 1
            return True
        self._step(sys._getframe(1).f_locals)

    def _step(self, loc):
        env = SimpleNamespace(**loc)
        env.g = self.g
        _check("inv:%s:step" % self.tag, self.spec.invariant(env, self.i + 1, self.n))
        raise PathEnd()


class _Poison:
    """Value of a loop-body temporary that the loop spec does not list: any use is out of reach."""

    def _boom(self, *a, **k):
        raise Unsupported("a variable assigned in a cut loop but unknown to the loop spec is read before being assigned")

    __bool__ = __add__ = __radd__ = __sub__ = __rsub__ = __mul__ = __rmul__ = __truediv__ = __rtruediv__ = _boom
    __lt__ = __le__ = __gt__ = __ge__ = __call__ = __getitem__ = __iter__ = __len__ = __neg__ = _boom

    def __getattr__(self, n):
        self._boom()

    def __eq__(self, o):
        self._boom()

    def __hash__(self):
        return 0


class _Runtime:
    POISON = _Poison()

    @staticmethod
    def enter(fn, k, iterable, loc):
        spec = ACTIVE.get((fn, k))
        if spec is None:
            raise Unsupported("no loop spec active for %s#%d" % (fn, k))
        return _Cut(fn, k, spec, iterable, dict(loc))


    @staticmethod
    def reduce_gen(fname, iterable, elt, cond):
        if hasattr(iterable, "__reduce_gen__"):
            return iterable.__reduce_gen__(fname, elt, cond)
        import builtins

        return getattr(builtins, fname)(elt(x) for x in iterable if cond(x))

    @staticmethod
    def fmt(template, args):
        from .models import SymFormat, has_symbolic

        if has_symbolic(args):
            return SymFormat(template, args)
        return template % args


    @staticmethod
    def bjoin(sep, parts):
        """`b"..".join(parts)`: the real join on real bytes, the byte-string model otherwise"""
        parts = list(parts)
        if all(isinstance(x, (bytes, bytearray, memoryview)) for x in parts):
            return sep.join(parts)
        from .models import bytesjoin_, SymBytes
        from .blobs import Blob
        if any(isinstance(x, Blob) for x in parts):
            # byte strings of symbolic length: concatenation of blobs
            out = Blob([])
            for i, x in enumerate(parts):
                if i and len(sep):
                    out = out + Blob.of(sep)
                out = out + Blob.of(x)
            return out
        return bytesjoin_([SymBytes.of(x) if not isinstance(x, (bytes, SymBytes)) else x for x in parts], sep)


RUNTIME = _Runtime()


# --------------------------------------------------------------------------
# the AST transformation


def _stored_names(body):
    names = set()

    class V(ast.NodeVisitor):
        def visit_Name(self, n):
            if isinstance(n.ctx, (ast.Store, ast.Del)):
                names.add(n.id)

        def visit_FunctionDef(self, n):
            names.add(n.name)

        def visit_Lambda(self, n):
            pass

        def visit_ListComp(self, n):
            pass

        visit_SetComp = visit_DictComp = visit_GeneratorExp = visit_ListComp

    for s in body:
        V().visit(s)
    return names


def transform(tree: ast.Module, cuts: dict, dropped: list):
    from .loader import find_def

    for qualname, loops in cuts.items():
        fdef = find_def(tree, qualname)
        if fdef is None:
            raise LookupError("cut target %s not found" % qualname)
        ordinal = [0]

        def rewrite(stmts):
            out = []
            for st in stmts:
                if isinstance(st, (ast.For, ast.While)):
                    k = ordinal[0]
                    ordinal[0] += 1
                    if k in loops:
                        out.extend(_cut_loop(st, qualname, k, loops[k]))
                        dropped.append("%s: loop #%d cut by invariant (line %d)" % (qualname, k, st.lineno))
                        continue
                for field in ("body", "orelse", "finalbody"):
                    if hasattr(st, field) and isinstance(getattr(st, field), list) and not isinstance(st, (ast.FunctionDef, ast.ClassDef)):
                        setattr(st, field, rewrite(getattr(st, field)))
                if isinstance(st, ast.Try):
                    for h in st.handlers:
                        h.body = rewrite(h.body)
                out.append(st)
            return out

        fdef.body = rewrite(fdef.body)
        missing = [k for k in loops if k >= ordinal[0]]
        if missing:
            raise LookupError("%s has no loop #%s" % (qualname, missing))
    return tree


def _cut_loop(st, qualname, k, spec: LoopSpec):
    stored = _stored_names(st.body)
    target_names = set()
    if isinstance(st, ast.For):
        for n in ast.walk(st.target):
            if isinstance(n, ast.Name):
                target_names.add(n.id)
    undeclared = stored - set(spec.modifies) - target_names
    # names the spec does not know (e.g. a temporary introduced by a refactoring) are havoced
    # to a poison value: harmless if the body assigns them before reading them, otherwise the
    # path leaves the engine's reach (Unsupported) - never silently wrong
    extra = sorted(undeclared)
    pv = "__pv%d" % k
    line = dict(lineno=st.lineno, col_offset=st.col_offset)

    def name(id_, ctx_=ast.Load):
        return ast.Name(id=id_, ctx=ctx_(), **line)

    enter = ast.Assign(
        targets=[name(pv, ast.Store)],
        value=ast.Call(func=ast.Attribute(value=name("__pyvc__"), attr="enter", ctx=ast.Load(), **line),
                       args=[ast.Constant(value=qualname, **line), ast.Constant(value=k, **line),
                             st.iter if isinstance(st, ast.For) else ast.Constant(value=None, **line),
                             ast.Call(func=name("locals"), args=[], keywords=[], **line)], keywords=[], **line), **line)
    out = [enter]
    havoc_call = ast.Call(func=ast.Attribute(value=name(pv), attr="havoc", ctx=ast.Load(), **line), args=[], keywords=[], **line)
    if spec.modifies:
        out.append(ast.Assign(targets=[ast.Tuple(elts=[name(m, ast.Store) for m in spec.modifies], ctx=ast.Store(), **line)],
                              value=havoc_call, **line))
    else:
        out.append(ast.Expr(value=havoc_call, **line))
    for m in extra:
        out.append(ast.Assign(targets=[name(m, ast.Store)],
                              value=ast.Attribute(value=name("__pyvc__"), attr="POISON", ctx=ast.Load(), **line), **line))
    if isinstance(st, ast.For):
        out.append(ast.For(target=st.target, iter=name(pv), body=st.body, orelse=st.orelse, **line))
    else:
        test = ast.BoolOp(op=ast.And(), values=[
            ast.Call(func=ast.Attribute(value=name(pv), attr="again", ctx=ast.Load(), **line), args=[], keywords=[], **line),
            st.test], **line)
        out.append(ast.While(test=test, body=st.body, orelse=st.orelse, **line))
    return out
