"""Path exploration: run a Python thunk once per feasible decision sequence.

The thunk is ordinary Python (the real fontTools function, a contract clause)
operating on pyvc.sym proxies.  Each time CPython needs a concrete truth value
the active PathCtx decides, consulting z3 for feasibility, and remembers the
alternative; the driver re-executes the thunk until the decision tree is
exhausted.  "unknown" from the solver is treated as feasible (sound for
proving: a superfluous path can only produce a spurious refutation, which the
native replay then filters).
"""
from __future__ import annotations

import time
from fractions import Fraction

import z3

from . import sym
from .sym import PathInfeasible, SymBool, SymNum, Unsupported


import re as _re

_PROXY_ERR = _re.compile(r"'(Sym\w+|_?Ghost\w*|Blob|Tail|Atom|int_|float_|bytes_|_Poison|_Sym\w+|_Cut|_Raw)'|z3\.|Z3")


def _looks_like_proxy_error(e, msg):
    """A TypeError/AttributeError that CPython raised because a proxy reached code that needs
    a concrete object ('SymNum' object cannot be interpreted as ...): the construct is out of
    the engine's reach, it is not behaviour of the code under verification."""
    return isinstance(e, (TypeError, AttributeError)) and bool(_PROXY_ERR.search(msg))


class Budget(BaseException):
    pass


class SideObligationFailed(BaseException):
    """ctx.require() (an encoding side condition) is not implied by the path."""

    def __init__(self, what, model):
        self.what = what
        self.model = model


class Stats:
    def __init__(self):
        self.solver_s = 0.0
        self.checks = 0
        self.unknown = 0


_FRESH = [0]


def _next_fresh():
    # process-wide: a clause evaluated on top of a finished path must never reuse a name
    _FRESH[0] += 1
    return _FRESH[0]


class PathCtx:
    def __init__(self, prefix, base, stats, timeout_ms, concretize_limit=64, deadline=None):
        self.deadline = deadline
        self.prefix = prefix
        self.taken = []          # decisions made, in order (True/False or ints for concretize)
        self.alternatives = []   # decision prefixes still to explore
        self.pc = []             # z3 constraints added on this path (beyond base)
        self.stats = stats
        self.solver = z3.Solver()
        self.solver.set("timeout", timeout_ms)
        for b in base:
            self.solver.add(b)
        self.base = list(base)
        self.fresh_n = 0
        self.symbols = {}        # name -> z3 const (inputs; models are read from these)
        self.stringified = False
        self.concretize_limit = concretize_limit
        self.notes = []
        self._bitcache = None
        self.loop_obligations = []
        self.proxy_hashed = False

    # -- solver -------------------------------------------------------------
    def _check(self, *extra):
        t0 = time.time()
        self.solver.push()
        for e in extra:
            self.solver.add(e)
        r = self.solver.check()
        self.solver.pop()
        self.stats.solver_s += time.time() - t0
        self.stats.checks += 1
        if r == z3.unknown:
            self.stats.unknown += 1
        return r

    def _add(self, t):
        self.pc.append(t)
        self.solver.add(t)

    # -- decisions ----------------------------------------------------------
    def branch(self, cond) -> bool:
        if self.deadline is not None and time.time() > self.deadline:
            raise Budget("exploration deadline exceeded inside a path (non-terminating loop?)")
        if len(self.taken) > 200000:
            raise Budget("more than 200000 decisions on one path")
        i = len(self.taken)
        if i < len(self.prefix):
            choice = self.prefix[i]
            self.taken.append(choice)
            self._add(cond if choice else z3.Not(cond))
            return choice
        can_t = self._check(cond) != z3.unsat
        can_f = self._check(z3.Not(cond)) != z3.unsat
        if can_t and can_f:
            self.alternatives.append(self.taken + [False])
            choice = True
        elif can_t:
            choice = True
        elif can_f:
            choice = False
        else:
            raise PathInfeasible()
        self.taken.append(choice)
        self._add(cond if choice else z3.Not(cond))
        return choice

    def concretize_int(self, n: SymNum) -> int:
        """range(n), struct sizes, slicing ...: enumerate the feasible values of
        a symbolic int (each value is one decision); more than
        `concretize_limit` feasible values is out of reach."""
        i = len(self.taken)
        if i < len(self.prefix):
            v = self.prefix[i]
            self.taken.append(v)
            self._add(n.t == v)
            return v
        # enumerate feasible values
        vals = []
        self.solver.push()
        while len(vals) <= self.concretize_limit:
            t0 = time.time()
            r = self.solver.check()
            self.stats.solver_s += time.time() - t0
            self.stats.checks += 1
            if r != z3.sat:
                if r == z3.unknown:
                    self.solver.pop()
                    raise Unsupported("cannot enumerate values of a symbolic int (solver unknown)")
                break
            v = self.solver.model().eval(n.t, model_completion=True).as_long()
            vals.append(v)
            self.solver.add(n.t != v)
        self.solver.pop()
        if not vals:
            raise PathInfeasible()
        if len(vals) > self.concretize_limit:
            raise Unsupported("symbolic int used as a concrete index/size with more than %d feasible values" % self.concretize_limit)
        vals.sort()
        for v in vals[1:]:
            self.alternatives.append(self.taken + [v])
        self.taken.append(vals[0])
        self._add(n.t == vals[0])
        return vals[0]

    # -- assumptions / side obligations --------------------------------------
    def assume_term(self, t):
        self._add(t)

    def assume(self, b):
        """Assume a Python truth value (may fork while evaluating)."""
        if isinstance(b, SymBool):
            s = z3.simplify(b.t)
            if z3.is_false(s):
                raise PathInfeasible()
            if not z3.is_true(s):
                if self._check(s) == z3.unsat:
                    raise PathInfeasible()
                self._add(s)
            return
        if not b:
            raise PathInfeasible()

    def proves(self, t) -> bool:
        """True iff the path condition implies t (unknown counts as no)."""
        return self._check(z3.Not(t)) == z3.unsat

    def require(self, t, what):
        """Side condition of an encoding: must follow from the path condition."""
        r = self._check(z3.Not(t))
        if r == z3.unsat:
            return
        if r == z3.sat:
            raise SideObligationFailed(what, None)
        raise Unsupported("side obligation undecided: " + what)

    # -- symbols ------------------------------------------------------------
    def fresh_real(self, hint="r"):
        return SymNum(z3.Real("%s!%d" % (hint, _next_fresh())))

    def fresh_int(self, hint="i"):
        return SymNum(z3.Int("%s!%d" % (hint, _next_fresh())))

    def fresh_bool(self, hint="b"):
        return SymBool(z3.Bool("%s!%d" % (hint, _next_fresh())))

    def note_stringified(self):
        self.stringified = True

    def all_constraints(self):
        return self.base + self.pc


class Path:
    __slots__ = ("constraints", "kind", "value", "taken", "stringified", "symbols", "extra", "loop_obligations")

    def __init__(self, constraints, kind, value, taken, stringified, symbols):
        self.constraints = constraints
        self.kind = kind          # 'ret' | 'exc' | 'unsupported' | 'side'
        self.value = value
        self.taken = taken
        self.stringified = stringified
        self.symbols = symbols
        self.extra = None
        self.loop_obligations = []


def explore(thunk, base=(), stats=None, timeout_ms=10000, max_paths=20000, concretize_limit=64,
            deadline=None):
    """Run thunk() once per feasible decision sequence.  Returns list[Path]."""
    stats = stats or Stats()
    work = [[]]
    paths = []
    while work:
        if len(paths) >= max_paths:
            raise Budget("more than %d paths" % max_paths)
        if deadline is not None and time.time() > deadline:
            raise Budget("exploration deadline exceeded")
        prefix = work.pop()
        c = PathCtx(prefix, list(base), stats, timeout_ms, concretize_limit, deadline)
        old = sym.set_ctx(c)
        try:
            try:
                v = thunk()
                kind = "ret"
            except PathInfeasible:
                work.extend(c.alternatives)
                continue
            except Unsupported as e:
                kind, v = "unsupported", e
            except _loopcut().PathEnd:
                kind, v = "cut", None
            except _loopcut().LoopObligationFailed as e:
                kind, v = "loopfail", e
            except SideObligationFailed as e:
                kind, v = "side", e
            except (Budget, KeyboardInterrupt, SystemExit):
                raise
            except RecursionError as e:
                kind, v = "unsupported", Unsupported("recursion limit: " + str(e)[:80])
            except BaseException as e:  # the code under verification raised
                msg = str(e)
                if _looks_like_proxy_error(e, msg):
                    kind, v = "unsupported", Unsupported("%s: %s" % (type(e).__name__, msg[:200]))
                else:
                    kind = "exc"
                    v = e
        finally:
            sym.set_ctx(old)
        work.extend(c.alternatives)
        p = Path(c.all_constraints(), kind, v, c.taken, c.stringified, c.symbols)
        p.loop_obligations = c.loop_obligations
        paths.append(p)
    return paths


def _loopcut():
    from . import loopcut

    return loopcut


# --------------------------------------------------------------------------
# models


def model_value(m, t):
    """z3 model value of term t as int / Fraction (algebraic numbers approximated);
    ("bytes", array, length) entries give the byte string arr[0..length)."""
    if isinstance(t, tuple) and t[0] == "bytes":
        n = m.eval(t[2], model_completion=True)
        n = n.as_long() if z3.is_int_value(n) else 0
        n = max(0, min(n, 1 << 16))
        out = bytearray()
        for k in range(n):
            b = m.eval(z3.Select(t[1], z3.IntVal(k)), model_completion=True)
            out.append(b.as_long() % 256 if z3.is_int_value(b) else 0)
        return bytes(out)
    if t is None:
        return None
    v = m.eval(t, model_completion=True)
    if z3.is_int_value(v):
        return v.as_long()
    if z3.is_rational_value(v):
        return Fraction(v.numerator_as_long(), v.denominator_as_long())
    if z3.is_algebraic_value(v):
        a = v.approx(30)
        return Fraction(a.numerator_as_long(), a.denominator_as_long())
    if z3.is_true(v):
        return True
    if z3.is_false(v):
        return False
    return None
