"""vcheck replay <file>: re-run a recorded counter-model natively against /repo's current
tree (the real function, normal import) and evaluate the failed clause again.
exit 1 = still reproduces, 0 = no longer reproduces, 2 = not replayable (no input)."""
from __future__ import annotations

import json
import os
import re
import sys
from fractions import Fraction

from . import core
from .run import load_contracts, VERIF


def _unjson(v):
    if isinstance(v, str):
        if re.fullmatch(r"-?\d+(/\d+)?", v):
            return Fraction(v)
        if re.fullmatch(r"([0-9a-f]{2})*", v) and len(v) % 2 == 0 and v:
            try:
                return bytes.fromhex(v)
            except ValueError:
                return v
    return v


def main(path):
    if not os.path.isabs(path):
        path = os.path.join(VERIF, path)
    d = json.load(open(path))
    vo = d.get("verifier_output", {})
    name = d.get("obligation", "")
    print("obligation:", name)
    if vo.get("bounded"):
        print("bounded stand-in violation; recorded failing input:")
        print(json.dumps(d.get("replay"), indent=1)[:3000])
        print("re-run:  bin/vcheck quick %s --only %s" % (d.get("property"), name.split(":", 1)[-1]))
        return 2
    reg = load_contracts()
    target = None
    for key, c in reg.items():
        for v in (c.variants_for("thorough") if hasattr(c, "variants_for") else c.variants):
            vname = c.cname() + ("" if v is None else "[%s]" % (v,))
            if name.startswith(vname + "/"):
                target = (c, v, name[len(vname) + 1:])
    if target is None:
        print("contract for this obligation not found")
        return 2
    c, v, suffix = target
    model = vo.get("model")
    if model is None:
        print("the verifier produced no input for this obligation (no-failing-input-found); solver output:")
        print(json.dumps(vo, indent=1)[:2000])
        return 2
    o = core.Obligation(name, "property")
    o.model = {k: _unjson(x) for k, x in model.items()}
    if suffix.startswith("post:"):
        cls = [cl for cl in c.ensures if cl.name == suffix[5:]]
        if not cls:
            print("clause no longer exists")
            return 2
        o.clause = cls[0]
    rp = core.replay(c, v, o)
    if not rp.get("reproduced"):
        rp2 = core.replay(c, v, o, as_float=True)
        if rp2.get("reproduced"):
            rp = rp2
    print(json.dumps(rp, indent=1, default=str)[:3000])
    return 1 if rp.get("reproduced") else 0
