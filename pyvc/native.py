"""Run a native (CPython 3.12 with the repository's own dependencies) helper script against
/repo's working tree and read its JSON result.  Used by bounded stand-ins that need brotli,
lxml, ... which the verifier's interpreter (python3-vt) does not have."""
import json
import os
import subprocess
import sys

VERIF = os.path.dirname(os.path.dirname(os.path.abspath(__file__)))
REPO = os.environ.get("VERIF_REPO", "/repo")
PY = "/venv/bin/python"


def run_native(script, args=(), timeout=1700):
    env = dict(os.environ)
    env["PYTHONPATH"] = os.path.join(REPO, "Lib") + os.pathsep + VERIF
    env["PYTHONDONTWRITEBYTECODE"] = "1"
    env.setdefault("PYTHONHASHSEED", "0")
    p = subprocess.run([PY, os.path.join(VERIF, "bounded", "native", script)] + [str(a) for a in args],
                       capture_output=True, text=True, timeout=timeout, env=env, cwd=VERIF)
    lines = [l for l in p.stdout.splitlines() if l.startswith("RESULT ")]
    if not lines:
        raise RuntimeError("native helper %s failed (rc=%s): %s" % (script, p.returncode, (p.stderr or p.stdout)[-800:]))
    return json.loads(lines[-1][len("RESULT "):])
