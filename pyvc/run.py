"""vcheck driver: select the contracts and bounded stand-ins of one property,
run them on /repo's working tree, write evidence, print verdict lines.

exit 0  every obligation discharged, no unlisted violation
exit 1  VIOLATION (refuted property clause; replayed natively where a model exists)
exit 2  UNDECIDED (solver unknown/timeout, construct out of reach, ledger name missing)
exit 3  internal error of the checker
"""
from __future__ import annotations

import glob
import hashlib
import importlib
import json
import multiprocessing as mp
import os
import re
import sys
import time
import traceback

VERIF = os.path.dirname(os.path.dirname(os.path.abspath(__file__)))
sys.path.insert(0, VERIF)

from pyvc import core, loader  # noqa: E402

TRUSTED_BASE = [
    "PYVC proxy arithmetic (pyvc/sym.py): lifting of Python int/float/complex operators to z3 Int/Real terms",
    "PYVC path explorer (pyvc/explore.py): solver 'unknown' on a branch is treated as feasible",
    "CPython 3.11 executing the real function bodies on the proxies",
    "z3 5.1.0 (Python API); /usr/bin/cvc5 1.0.3 and /usr/bin/z3 4.8.12 only as second opinion on 'unknown'",
]


def load_contracts():
    loader.ensure_repo_on_path()
    for fn in sorted(glob.glob(os.path.join(VERIF, "contracts", "*.py"))):
        name = os.path.basename(fn)[:-3]
        if name.startswith("_"):
            continue
        importlib.import_module("contracts." + name)
    return core.REGISTRY


def load_bounded():
    from pyvc import bounded

    for fn in sorted(glob.glob(os.path.join(VERIF, "bounded", "*.py"))):
        name = os.path.basename(fn)[:-3]
        if name.startswith("_") or name.startswith("xh_"):
            continue
        importlib.import_module("bounded." + name)
    return bounded.REGISTRY


def load_known():
    p = os.path.join(VERIF, "known_findings.json")
    if not os.path.exists(p):
        return {"findings": [], "fixed": []}
    with open(p) as f:
        return json.load(f)


def _safe(s):
    return re.sub(r"[^A-Za-z0-9_.\-\[\]]+", "_", s)[:150]


# --------------------------------------------------------------------------
# scheduler: one forked child per task (a multiprocessing.Pool waits for ever when a worker is
# killed - out of memory, a crash inside a solver library - so every task gets its own
# process, a pipe, and a hard wall-clock limit; a child that dies or overruns is reported as
# undecided for that contract, never as a violation and never as a pass)


def _worker_loop(conn):
    try:    # a runaway path (a changed loop that never ends while allocating) must not take the
        import resource   # machine down: cap the address space, the task then fails on its own
        cap = int(os.environ.get("VERIF_WORKER_MEM_GB", "6")) << 30
        resource.setrlimit(resource.RLIMIT_AS, (cap, cap))
    except BaseException:
        pass
    while True:
        try:
            msg = conn.recv()
        except (EOFError, OSError):
            return
        if msg is None:
            return
        kind, task = msg
        try:
            r = (_work if kind == "c" else _work_bounded)(task)
        except BaseException as e:  # pragma: no cover - the workers catch their own errors
            r = {"died": "%s: %s" % (type(e).__name__, e)}
        try:
            conn.send(r)
        except BaseException as e:
            conn.send({"died": "result not transferable: %s: %s" % (type(e).__name__, e)})


class _Worker:
    def __init__(self, ctx):
        self.conn, child = ctx.Pipe(duplex=True)
        self.proc = ctx.Process(target=_worker_loop, args=(child,), daemon=True)
        self.proc.start()
        child.close()
        self.job = None      # (kind, idx, task, t_start, limit)
        self.done = 0

    def stop(self, kill=False):
        try:
            if kill:
                self.proc.kill()
            else:
                self.conn.send(None)
        except BaseException:
            pass
        self.proc.join(10)
        if self.proc.is_alive():
            self.proc.kill()
            self.proc.join(10)
        try:
            self.conn.close()
        except BaseException:
            pass


def _run_all(tasks, btasks, jobs, tasks_per_worker=8):
    """Persistent forked workers (recycled every few tasks).  Unlike multiprocessing.Pool, a
    worker that is killed (out of memory, a crash inside a solver library) or overruns its hard
    wall-clock limit loses only its current task, which is reported as undecided."""
    from multiprocessing.connection import wait as mp_wait

    ctx = mp.get_context("fork")
    queue = [("b", i, t) for i, t in enumerate(btasks)] + [("c", i, t) for i, t in enumerate(tasks)]
    res = {"c": [None] * len(tasks), "b": [None] * len(btasks)}

    def limit_for(kind, task):
        if kind == "c":
            c = core.REGISTRY[task[0]]
            # the in-path deadline fires first when Python code is running; the hard limit catches a
            # worker that is stuck inside a C call (a solver, a huge integer operation)
            return int(getattr(c, "deadline_s", 900) * 1.25) + 120
        return 4 * 3600

    def lost(kind, task, why):
        if kind == "c":
            return {"key": task[0], "variant": task[1], "died": why, "obligations": [], "info": {"contract": task[0]}}
        b = __import__("pyvc.bounded", fromlist=["REGISTRY"]).REGISTRY[task[0]]
        return {"name": task[0], "kind": b.kind, "bound": b.bound, "evaluations": 0, "violations": [], "undecided": ["worker: " + why]}

    workers = []
    spawn_failures = 0
    qi = 0
    n_total = len(queue)
    n_done = 0
    while n_done < n_total:
        # hand out work
        while qi < n_total:
            w = next((w for w in workers if w.job is None), None)
            if w is None:
                if len(workers) >= jobs:
                    break
                try:
                    w = _Worker(ctx)
                except OSError:
                    # the machine cannot give us another process right now (fork: EAGAIN / ENOMEM): go on with
                    # the workers there are; with none at all, wait a little and try again
                    if workers:
                        break
                    spawn_failures += 1
                    if spawn_failures > 60:
                        raise
                    time.sleep(5)
                    continue
                workers.append(w)
            kind, idx, task = queue[qi]
            qi += 1
            w.job = (kind, idx, task, time.time(), limit_for(kind, task))
            try:
                w.conn.send((kind, task))
            except (OSError, ValueError):
                # the worker went away between two tasks: its task is handed to the next worker
                qi -= 1
                w.job = None
                w.stop(kill=True)
                workers.remove(w)
        busy = [w for w in workers if w.job is not None]
        ready = mp_wait([w.conn for w in busy], timeout=5)
        now = time.time()
        for w in busy:
            kind, idx, task, t0, lim = w.job
            if w.conn in ready:
                try:
                    r = w.conn.recv()
                    if "died" in r and "key" not in r and "name" not in r:
                        r = lost(kind, task, r["died"])
                    dead = False
                except (EOFError, OSError):
                    w.proc.join(5)
                    r = lost(kind, task, "worker process ended without a result (exit code %s)" % w.proc.exitcode)
                    dead = True
                res[kind][idx] = r
                n_done += 1
                w.job = None
                w.done += 1
                if dead or w.done >= tasks_per_worker:
                    w.stop(kill=dead)
                    workers.remove(w)
            elif now - t0 > lim:
                res[kind][idx] = lost(kind, task, "hard wall-clock limit of %d s exceeded; worker killed" % lim)
                n_done += 1
                w.stop(kill=True)
                workers.remove(w)
    for w in workers:
        w.stop()
    return res["c"], res["b"]


# --------------------------------------------------------------------------
# worker


def _work(task):
    import logging

    logging.disable(logging.CRITICAL)      # the code under verification logs on symbolic paths
    key, variant, pid = task
    c = core.REGISTRY[key]
    t0 = time.time()
    try:
        obs, info = core.verify(c, variant, deadline_s=getattr(c, "deadline_s", 900))
        out = []
        for o in obs:
            j = o.to_json()
            if o.status == "refuted":
                rp = core.replay(c, variant, o)
                if not rp.get("reproduced"):
                    rp2 = core.replay(c, variant, o, as_float=True)
                    if rp2.get("reproduced"):
                        rp = rp2
                        rp["float_inputs"] = True
                if not rp.get("reproduced") and hasattr(c, "concrete_candidates"):
                    # native search around the failed obligation (contract-specific candidates)
                    saved = o.model
                    for cand in c.concrete_candidates(variant):
                        o.model = cand
                        rp3 = core.replay(c, variant, o)
                        if rp3.get("reproduced"):
                            rp = rp3
                            rp["found_by"] = "native search over contract-supplied candidates"
                            break
                    o.model = saved
                j["replay"] = rp
            out.append(j)
        info["level"] = c.level
        info["props"] = list(c.props)
        info["assumptions"] = list(c.assumptions)
        info["known"] = [k for k in getattr(c, "known_ids", ())]
        return {"key": key, "variant": variant, "info": info, "obligations": out, "wall_s": time.time() - t0}
    except BaseException as e:  # engine crash
        return {"key": key, "variant": variant, "crash": "%s: %s" % (type(e).__name__, e),
                "trace": traceback.format_exc()[-1500:], "obligations": [], "info": {"contract": key}}


def _work_bounded(task):
    name, tier, seed = task
    from pyvc import bounded

    b = bounded.REGISTRY[name]
    t0 = time.time()
    try:
        r = b.fn(tier=tier, seed=seed)
        r.setdefault("violations", [])
        r["name"] = name
        r["kind"] = b.kind
        r["bound"] = b.bound
        r["wall_s"] = round(time.time() - t0, 2)
        return r
    except BaseException as e:
        return {"name": name, "kind": b.kind, "bound": b.bound, "crash": "%s: %s" % (type(e).__name__, e),
                "trace": traceback.format_exc()[-1500:], "evaluations": 0, "violations": []}


# --------------------------------------------------------------------------


def run_property(pid: str, tier: str, seed: int, jobs: int = None, only=None):
    t0 = time.time()
    reg = load_contracts()
    breg = load_bounded()
    known = load_known()
    known_ids = {f["id"]: f for f in known.get("findings", []) if pid in (f.get("properties") or [f.get("property")])}

    tasks = []
    for key, c in sorted(reg.items()):
        if pid in c.props and (only is None or only in key or only in c.cname()):
            tiers = getattr(c, "tiers", ("quick", "thorough"))
            if tier not in tiers:
                continue
            for v in c.variants_for(tier) if hasattr(c, "variants_for") else c.variants:
                tasks.append((key, v, pid))
    btasks = [(n, tier, seed) for n, b in sorted(breg.items())
              if pid in b.props and (tier == "thorough" or b.quick) and (only is None or only in n)]

    jobs = jobs or int(os.environ.get("VERIF_JOBS", "0")) or min(16, os.cpu_count() or 4)
    results, bresults = [], []
    results, bresults = _run_all(tasks, btasks, jobs)

    # ---- aggregate --------------------------------------------------------------
    lines, exit_code = [], 0
    obligations, discharged = 0, 0
    guards = 0
    samples, functions, assumptions = [], [], set()
    by_backend: dict = {}
    undecided, violations, known_hits, drift = [], [], [], []
    replay_dir = os.path.join(VERIF, "replays", pid)
    if os.environ.get("VERIF_NO_EVIDENCE") or os.path.realpath(loader.REPO) != "/repo":
        replay_dir = os.path.join(VERIF, "replays", "scratch", pid)
    os.makedirs(replay_dir, exist_ok=True)
    if only is None:
        for old_f in glob.glob(os.path.join(replay_dir, "*.json")):
            os.unlink(old_f)
    all_names = []

    for r in results:
        if "died" in r:
            c = reg[r["key"]]
            vname = c.cname() + ("" if r["variant"] is None else "[%s]" % (r["variant"],))
            undecided.append({"obligation": vname + "/worker", "reason": r["died"]})
            continue
        if "crash" in r:
            lines.append("CHECKER-ERROR property=%s contract=%s %s" % (pid, r["key"], r["crash"]))
            sys.stderr.write(r.get("trace", "") + "\n")
            exit_code = max(exit_code, 3)
            continue
        info = r["info"]
        c = reg[r["key"]]
        fi = dict(info.get("function") or {})
        fi.update(name=("%s.%s" % (c.module, c.qualname)) if c.module else "lemma:" + r["key"], contract=info["contract"], front_end=info.get("front_end"),
                  paths=info.get("paths"), level=c.level, solver_s=info.get("solver_s"))
        functions.append(fi)
        for a in info.get("assumptions", []):
            assumptions.add(a)
        for o in r["obligations"]:
            all_names.append(o["obligation"])
            is_guard = o["kind"] == "guard"
            if is_guard:
                guards += 1
            else:
                obligations += 1
            bk = o.get("backend", "z3")
            d = by_backend.setdefault(bk, {"obligations": 0, "solver_s": 0.0})
            d["obligations"] += 1
            d["solver_s"] = round(d["solver_s"] + o.get("solver_s", 0), 4)
            if o["result"] == "proved":
                if not is_guard:
                    discharged += 1
                    if len(samples) < 6 and o["paths"]:
                        samples.append({k: o[k] for k in ("obligation", "kind", "result", "paths", "solver_s", "backend")})
                continue
            if o["result"] == "undecided":
                undecided.append(o)
                continue
            # refuted
            kid = getattr(c, "known_id", None)
            if o["kind"] == "internal":
                drift.append(o)
                obligations -= 1      # reported as drift; not part of the discharged/obligations ratio
                continue
            rp = o.get("replay") or {}
            if kid and kid in known_ids and rp.get("reproduced"):
                known_hits.append((kid, o))
                obligations -= 1  # a listed finding is reported, not counted as an obligation of the proof
                continue
            violations.append(o)

    for b in bresults:
        if "crash" in b:
            lines.append("CHECKER-ERROR property=%s bounded=%s %s" % (pid, b["name"], b["crash"]))
            sys.stderr.write(b.get("trace", "") + "\n")
            exit_code = max(exit_code, 3)
            continue
        for v in b.get("violations", []):
            kid = v.get("known_id")
            if kid and kid in known_ids:
                known_hits.append((kid, {"obligation": "bounded:" + b["name"], "replay": v}))
            else:
                violations.append({"obligation": "bounded:" + b["name"], "kind": "property", "result": "refuted",
                                   "replay": dict(v, reproduced=True), "bounded": True})
        for u in b.get("undecided", []):
            undecided.append({"obligation": "bounded:" + b["name"], "reason": u})

    # ledger -------------------------------------------------------------------------
    ledger_path = os.path.join(VERIF, "contracts", "LEDGER.json")
    if os.path.exists(ledger_path) and only is None:
        with open(ledger_path) as f:
            ledger = json.load(f)
        want = ledger.get(pid, {}).get(tier, [])
        have = set(all_names) | {"bounded:" + b["name"] for b in bresults}
        for n in want:
            if n not in have:
                undecided.append({"obligation": n, "reason": "listed in LEDGER.json but no longer generated"})

    # report ---------------------------------------------------------------------------
    seen_known = set()
    for kid, o in known_hits:
        if kid in seen_known:
            continue
        seen_known.add(kid)
        lines.append("KNOWN-FINDING: property=%s %s — %s" % (pid, kid, known_ids[kid]["what"]))
    for o in drift:
        lines.append("CONTRACT-DRIFT obligation=%s (internal clause no longer holds; no property clause depends on it)" % o["obligation"])
    for o in violations:
        fn = os.path.join(replay_dir, _safe(o["obligation"]) + ".json")
        rp = o.get("replay") or {}
        with open(fn, "w") as f:
            json.dump({"property": pid, "obligation": o["obligation"], "verifier_output": o, "replay": rp,
                       "repo": loader.REPO, "how_to_replay": "bin/vcheck replay %s" % os.path.relpath(fn, VERIF)}, f, indent=1, default=str)
        suffix = "" if rp.get("reproduced") else " no-failing-input-found"
        lines.append("VIOLATION property=%s replay=%s obligation=%s%s" % (pid, os.path.relpath(fn, VERIF), o["obligation"], suffix))
        exit_code = max(exit_code, 1)
    for o in undecided:
        lines.append("UNDECIDED property=%s obligation=%s reason=%s" % (pid, o["obligation"], o.get("reason")))
        if exit_code == 0:
            exit_code = 2
    if obligations == 0 and not bresults:
        lines.append("UNDECIDED property=%s reason=no obligations generated (vacuous run)" % pid)
        exit_code = max(exit_code, 2)

    meta = PROPS_META.get(pid, {})
    level = meta.get("level", "proof")
    wall = time.time() - t0
    bounded_cov = {}
    evals = 0
    distinct = 0
    bsamples = []
    for b in bresults:
        bounded_cov[b["name"]] = {k: b.get(k) for k in ("kind", "bound", "evaluations", "distinct_nontrivial", "exhaustive", "wall_s", "rule") if k in b}
        evals += b.get("evaluations", 0)
        distinct += b.get("distinct_nontrivial", 0)
        bsamples.extend(b.get("samples", [])[:2])
    coverage = {
        "obligations": obligations, "discharged": discharged,
        "checker_cmd": "bin/vcheck %s %s" % (tier, pid),
        "trusted_base": TRUSTED_BASE,
        "guards_passed": guards - sum(1 for o in undecided if o.get("kind") == "guard"),
        "functions_under_contract": functions,
        "by_backend": by_backend,
        "samples": samples + bsamples[:4],
        "bounded": bounded_cov,
        "bounded_note": "bounded stand-ins are never counted in obligations/discharged",
        "known_findings_reported": sorted(seen_known),
        "contract_drift": [o["obligation"] for o in drift],
        "undecided": [o["obligation"] for o in undecided],
        "unverified_remainder": meta.get("remainder", []),
    }
    if level != "proof" or obligations == 0:
        sym_paths = sum((f.get("paths") or 0) for f in functions)
        coverage.update(evaluations=evals + sym_paths, distinct_nontrivial=distinct + sym_paths,
                        rule=("PYVC: one case per feasible decision sequence (path) of the real function on symbolic inputs "
                              "of the stated shape - distinct by construction; native harness: "
                              + ("; ".join(sorted({b.get("rule", "") for b in bresults if b.get("rule")})) or "none")),
                        symbolic_paths=sym_paths)
    ev = {"property_id": pid, "tier": tier, "seed": seed, "level": level, "coverage": coverage,
          "assumptions": sorted(assumptions | set(meta.get("assumptions", []))),
          "wall_s": round(wall, 2), "violations": len(violations)}
    # evidence is only (re)written by a full run against /repo itself; scratch copies, seeded
    # changes being tried out and --only runs leave the committed evidence alone
    ev_dir = os.path.join(VERIF, "evidence")
    if os.environ.get("VERIF_NO_EVIDENCE") or os.path.realpath(loader.REPO) != "/repo":
        ev_dir = os.path.join("/tmp", "verif_scratch_evidence")
    os.makedirs(ev_dir, exist_ok=True)
    if only is None:
        with open(os.path.join(ev_dir, pid + ".json"), "w") as f:
            json.dump(ev, f, indent=1, default=str)
    for ln in lines:
        print(ln)
    print("vcheck %s %s: %d/%d obligations discharged, %d guards, %d bounded stand-ins, %d known findings, %.1fs, exit %d"
          % (tier, pid, discharged, obligations, guards, len(bresults), len(seen_known), wall, exit_code))
    return exit_code, ev, all_names + ["bounded:" + b["name"] for b in bresults]


PROPS_META: dict = {}


def load_meta():
    p = os.path.join(VERIF, "contracts", "PROPERTIES_META.json")
    if os.path.exists(p):
        with open(p) as f:
            PROPS_META.update(json.load(f))


def main(argv):
    if len(argv) < 2:
        print("usage: vcheck {quick|thorough} Cxx [--only substr] | ledger | replay <file> | selftest", file=sys.stderr)
        return 3
    load_meta()
    cmd = argv[1]
    seed = int(os.environ.get("VERIF_SEED", "0") or 0)
    if cmd in ("quick", "thorough"):
        pid = argv[2]
        only = None
        if "--only" in argv:
            only = argv[argv.index("--only") + 1]
        try:
            code, ev, names = run_property(pid, cmd, seed, only=only)
        except BaseException:
            traceback.print_exc()
            return 3
        return code
    if cmd == "ledger":
        out = {}
        for pid in argv[2:] or sorted(PROPS_META):
            out[pid] = {}
            for tier in ("quick", "thorough"):
                if tier == "thorough" and "--quick-only" in argv:
                    continue
                code, ev, names = run_property(pid, tier, seed)
                out[pid][tier] = sorted(set(names))
        p = os.path.join(VERIF, "contracts", "LEDGER.json")
        old = {}
        if os.path.exists(p):
            with open(p) as f:
                old = json.load(f)
        old.update(out)
        with open(p, "w") as f:
            json.dump(old, f, indent=1, sort_keys=True)
        return 0
    if cmd == "replay":
        from pyvc import replaycmd

        return replaycmd.main(argv[2])
    if cmd == "selftest":
        from pyvc import selftest

        return selftest.main(argv[2:])
    print("unknown command", cmd, file=sys.stderr)
    return 3


if __name__ == "__main__":
    sys.exit(main(sys.argv))
