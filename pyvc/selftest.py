"""vcheck selftest: seeded source changes applied to a scratch copy of /repo/Lib (outside /repo
and /verif, deleted afterwards).  'alarm' edits break a property and must produce a VIOLATION;
'green' edits preserve it and must stay quiet (exit 0, possibly with CONTRACT-DRIFT lines).
A pass of the property checks is not trusted unless this catalogue has shown that the same
obligations can fail."""
from __future__ import annotations

import os
import shutil
import subprocess
import sys
import tempfile
from concurrent.futures import ThreadPoolExecutor

VERIF = os.path.dirname(os.path.dirname(os.path.abspath(__file__)))

# (id, file under Lib/fontTools, old text, new text, property, --only selector, expectation)
CATALOGUE = [
    ("enc-boundary", "misc/psCharStrings.py", "elif 108 <= value <= 1131:", "elif 108 <= value <= 1132:", "C15", "EncodeIntT2", "alarm"),
    ("enc-offset", "misc/psCharStrings.py", "code = bytechr((value >> 8) + 247) + bytechr(value & 0xFF)", "code = bytechr((value >> 8) + 248) + bytechr(value & 0xFF)", "C15", "EncodeIntCFF", "alarm"),
    ("base128-shift", "ttLib/woff2.py", "b = (n >> (7 * (size - i - 1))) & 0x7F", "b = (n >> (7 * (size - i))) & 0x7F", "C15", "PackBase128", "alarm"),
    ("base128-mask", "ttLib/woff2.py", "result = (result << 7) | (code & 0x7F)", "result = (result << 7) | (code & 0xFF)", "C15", "UnpackBase128", "alarm"),
    ("255-offset", "ttLib/woff2.py", 'return struct.pack(">BB", 255, value - 253)', 'return struct.pack(">BB", 255, value - 254)', "C15", "Pack255UShort", "alarm"),
    ("255-other-legal-spelling", "ttLib/woff2.py", "    elif value < 506:\n        return struct.pack(\">BB\", 255, value - 253)", "    elif value <= 506:\n        return struct.pack(\">BB\", 255, value - 253)", "C15", "Pack255UShort", "green"),
    ("uint32var-boundary", "ttLib/tables/otTables.py", "    elif v < 0x4000:\n        return struct.pack(\">H\", (v | 0x8000))", "    elif v < 0x8000:\n        return struct.pack(\">H\", (v | 0x8000))", "C15", "WriteUint32Var", "alarm"),
    ("eexec-constant", "misc/eexec.py", "    plain = ((cipher ^ (R >> 8))) & 0xFF\n    R = ((cipher + R) * 52845 + 22719) & 0xFFFF", "    plain = ((cipher ^ (R >> 8))) & 0xFF\n    R = ((cipher + R) * 52844 + 22719) & 0xFFFF", "C15", "EexecChar", "alarm"),
    ("normalize-swap", "varLib/models.py", "return (v - default) / (default - lower)", "return (v - default) / (upper - default)", "C09", "NormalizeValue", "alarm"),
    ("support-slope", "varLib/models.py", "            scalar *= (v - upper) / (peak - upper)\n    return scalar", "            scalar *= (v - upper) / (upper - peak)\n    return scalar", "C09", "SupportScalarOT", "alarm"),
    ("support-helper-refactor", "varLib/models.py", "        if v < peak:\n            scalar *= (v - lower) / (peak - lower)", "        if v < peak:\n            ratio = (v - lower) / (peak - lower)\n            scalar *= ratio", "C09", "SupportScalar", "green"),
    ("solve-gain", "varLib/instancer/solver.py", "crossing = peak + (1 - gain) * (upper - peak)\n\n        loc = (max(lower, axisDef), peak, crossing)", "crossing = peak + gain * (upper - peak)\n\n        loc = (max(lower, axisDef), peak, crossing)", "C09", "SolveExact", "alarm"),
    ("solve-max-min", "varLib/instancer/solver.py", "        loc = (max(lower, axisDef), peak, crossing)\n        scalar = 1", "        loc = (min(lower, axisDef), peak, crossing)\n        scalar = 1", "C09", "SolveExact", "alarm"),
    ("getdeltas-sign", "varLib/models.py", "                    delta -= out[j] * weight", "                    delta += out[j] * weight", "C09", "GetDeltas", "alarm"),
    ("plm-denominator", "varLib/models.py", "return va + (vb - va) * (v - a) / (b - a)", "return va + (vb - va) * (v - a) / (b - v)", "C09", "PiecewiseLinearMap", "alarm"),
    ("checksum-pad", "ttLib/sfnt.py", 'data += b"\\0" * (4 - remainder)', 'data += b"\\1" * (4 - remainder)', "C04", "CalcChecksum", "alarm"),
    ("checksum-blocksize", "ttLib/sfnt.py", "    blockSize = 4096\n", "    blockSize = 1024\n", "C04", "CalcChecksum", "green"),
    ("writer-padding", "ttLib/sfnt.py", "self.nextTableOffset = self.nextTableOffset + ((entry.length + 3) & ~3)", "self.nextTableOffset = self.nextTableOffset + ((entry.length + 3) & ~1)", "C04", "SFNTWriterSetItem", "alarm"),
    ("writer-head-slice", "ttLib/sfnt.py", "            entry.checkSum = calcChecksum(data[:8] + b\"\\0\\0\\0\\0\" + data[12:])\n            self.headTable = data", "            entry.checkSum = calcChecksum(data[:8] + b\"\\0\\0\\0\\0\" + data[11:])\n            self.headTable = data", "C04", "SFNTWriterSetItem", "alarm"),
    ("master-checksum-constant", "ttLib/sfnt.py", "0xB1B0AFBA - checksum", "0xB1B0AFBB - checksum", "C04", "SFNTWriterClose", "alarm"),
    ("search-range", "ttLib/ttFont.py", "searchRange = (2**exponent) * itemSize", "searchRange = (2**(exponent + 1)) * itemSize", "C04", "GetSearchRange", "alarm"),
    ("woff-breakeven", "ttLib/sfnt.py", "len(compressedData) >= self.origLength", "len(compressedData) > self.origLength", "C04", "WOFFEncode", "alarm"),
    ("hmtx-trim", "ttLib/tables/_h_m_t_x.py", "while metrics[lastIndex - 2][0] == lastAdvance", "while metrics[lastIndex - 1][0] == lastAdvance", "C04", "HmtxCompile", "alarm"),
    ("hmtx-never-trim", "ttLib/tables/_h_m_t_x.py", "            while metrics[lastIndex - 2][0] == lastAdvance:", "            while False and metrics[lastIndex - 2][0] == lastAdvance:", "C04", "HmtxCompile", "green"),
    ("loca-shift", "ttLib/tables/_l_o_c_a.py", "locations.append(location // 2)", "locations.append(location >> 2)", "C04", "LocaCompile", "alarm"),
    ("loca-threshold", "ttLib/tables/_l_o_c_a.py", "if max_location < 0x20000 and", "if max_location < 0x10000 and", "C04", "LocaCompile", "green"),
    ("offset-mask", "ttLib/tables/otBase.py", "items[i] = packUShort(item.subWriter.pos - pos)", "items[i] = packUShort((item.subWriter.pos - pos) & 0xFFFF)", "C06", "WriterGetData", "alarm"),
    ("offset24-sign", "ttLib/tables/otBase.py", "items[i] = packUInt24(item.subWriter.pos - pos)", "items[i] = packUInt24(pos - item.subWriter.pos)", "C06", "WriterGetData", "alarm"),
    ("datalength", "ttLib/tables/otBase.py", "                l += item.offsetSize", "                l += 2", "C06", "WriterGetDataLength", "alarm"),
    ("split-two", "cu2qu/cu2qu.py", "    mid = (p0 + 3 * (p1 + p2) + p3) * 0.125\n    deriv3 = (p3 + p2 - p1 - p0) * 0.125\n    return (", "    mid = (p0 + 2 * (p1 + p2) + p3) * 0.125\n    deriv3 = (p3 + p2 - p1 - p0) * 0.125\n    return (", "C13", "SplitCubicIntoTwo", "alarm"),
    ("elevation", "cu2qu/cu2qu.py", "c1 = c0 + (q1 - c0) * (2 / 3)", "c1 = c0 + (q1 - c0) * (1 / 2)", "C13", "CubicApproxQuadratic", "alarm"),
    ("spline-drop-delta-test", "cu2qu/cu2qu.py", "if abs(d1) > tolerance or not cubic_farthest_fit_inside(", "if not cubic_farthest_fit_inside(", "C13", "CubicApproxSpline", "alarm"),
    ("fit-test-order", "cu2qu/cu2qu.py", "if abs(p2) <= tolerance and abs(p1) <= tolerance:", "if abs(p1) <= tolerance and abs(p2) <= tolerance:", "C13", "CubicFarthestFitInside", "green"),
    ("n-search-last-i", "cu2qu/cu2qu.py", "            n += 1\n            last_i = i\n            continue", "            n += 1\n            continue", "C13", "CurvesToQuadratic", "alarm"),
    ("inverse-sign", "misc/transform.py", "xx, xy, yx, yy = yy / det, -xy / det, -yx / det, xx / det", "xx, xy, yx, yy = yy / det, -xy / det, yx / det, xx / det", "C14", "TransformInverse", "alarm"),
    ("sect-boundary", "misc/arrayTools.py", "    if xMin >= xMax or yMin >= yMax:\n        return False, (0, 0, 0, 0)", "    if xMin > xMax or yMin >= yMax:\n        return False, (0, 0, 0, 0)", "C14", "SectRect", "alarm"),
    ("flex1-orientation", "misc/psCharStrings.py", "        if abs(dx) > abs(dy):\n            dx6 = d6", "        if abs(dx) >= abs(dy):\n            dx6 = d6", "C05", "T2Extractor", "alarm"),
    ("hhcurveto-order", "cffLib/specializer.py", 'yield ("rrcurveto", [args[1], args[0], args[2], args[3], args[4], 0])', 'yield ("rrcurveto", [args[0], args[1], args[2], args[3], args[4], 0])', "C12", "Generalizer", "alarm"),
    ("encodefixed-trunc", "misc/psCharStrings.py", "return encodeIntT2(value >> 16)  # encode only the integer part", "return encodeIntT2(int(f))  # encode only the integer part", "C12", "EncodeFixed", "alarm"),
    ("timestamp-ignore-env", "misc/timeTools.py", "    if source_date_epoch is not None:\n        return int(source_date_epoch) - epoch_diff", "    if source_date_epoch is not None and False:\n        return int(source_date_epoch) - epoch_diff", "C16", "TimestampNow", "alarm"),
    ("head-always-stamp", "ttLib/tables/_h_e_a_d.py", "        if ttFont.recalcTimestamp:\n            self.modified = timestampNow()", "        if ttFont.recalcTimestamp or True:\n            self.modified = timestampNow()", "C16", "HeadCompile", "alarm"),
    ("directory-length-check", "ttLib/sfnt.py", "        if len(data) != self.formatSize:\n            # A file truncated", "        if False and len(data) != self.formatSize:\n            # A file truncated", "C20", "SFNTReaderOpen", "alarm"),
    ("readtable-narrow-except", "ttLib/ttFont.py", "            table.decompile(data, self)\n        except Exception:\n            if not self.ignoreDecompileErrors:", "            table.decompile(data, self)\n        except (ValueError, AssertionError):\n            if not self.ignoreDecompileErrors:", "C20", "ReadTableFallback", "alarm"),
    ("save-open-first", "ttLib/ttFont.py", "        tmp = BytesIO()\n\n        writer_reordersTables = self._save(tmp)", "        if createStream:\n            open(file, \"wb\").close()\n        tmp = BytesIO()\n\n        writer_reordersTables = self._save(tmp)", "C20", "Save", "alarm"),
    ("gettabledata-truncate", "ttLib/ttFont.py", "            log.debug(\"Reading '%s' table from disk\", tag)\n            return self.reader[tag]\n        else:", "            log.debug(\"Reading '%s' table from disk\", tag)\n            return self.reader[tag][:-1]\n        else:", "C01", "WriteTablePassThrough", "alarm"),
    ("limit-scale-dropped", "varLib/instancer/__init__.py", "        newVar *= scalar\n        out.append(newVar)", "        out.append(newVar)", "C08", "ChangeTupleVariationAxisLimit", "alarm"),
    ("map-backward-slope", "designspaceLib/__init__.py", "return user1 + (user2 - user1) * (v - design1) / (design2 - design1)", "return user1 + (user2 - user1) * (v - design1) / (design2 - user1)", "C19", "AxisMapRoundTrip", "alarm"),
    ("iup-clamp", "varLib/iup.py", "            if x <= x1:\n                d = d1\n            elif x >= x2:\n                d = d2", "            if x <= x1:\n                d = d1\n            elif x > x2:\n                d = d2", "C09", "IupSegment", "green"),
    ("iup-scale", "varLib/iup.py", "        scale = (d2 - d1) / (x2 - x1)", "        scale = (d2 - d1) / (x2 + x1)", "C09", "IupSegment", "alarm"),
    # -- second-generation contracts ---------------------------------------------------------
    ("component-shear-dropped", "ttLib/tables/_g_l_y_f.py", "            if transform[0][1] or transform[1][0]:", "            if transform[0][1] and transform[1][0]:", "C02", "GlyphComponentCompile", "alarm"),
    ("point-stream-short-boundary", "ttLib/tables/_g_l_y_f.py", "            elif -255 <= x <= 255:\n                flag = flag | flagXShort\n                if x > 0:\n                    flag = flag | flagXsame\n                else:\n                    x = -x\n                compressedXs.append(x)\n            else:\n                compressedXs.extend(struct.pack(\">h\", x))\n            # do y\n            if y == 0:\n                flag = flag | flagYsame\n            elif -255 <= y <= 255:\n                flag = flag | flagYShort\n                if y > 0:\n                    flag = flag | flagYsame\n                else:\n                    y = -y\n                compressedYs.append(y)\n            else:\n                compressedYs.extend(struct.pack(\">h\", y))\n            # handle repeating flags\n            if flag == lastflag and repeat != 255:\n                repeat = repeat + 1\n                if repeat == 1:\n                    compressedFlags.append(flag)\n                else:\n                    compressedFlags[-2] = flag | flagRepeat\n                    compressedFlags[-1] = repeat\n            else:\n                repeat = 0\n                compressedFlags.append(flag)\n            lastflag = flag\n        return (compressedFlags, compressedXs, compressedYs)\n\n    def compileDeltasOptimal", "            elif -256 <= x <= 255:\n                flag = flag | flagXShort\n                if x > 0:\n                    flag = flag | flagXsame\n                else:\n                    x = -x\n                compressedXs.append(x)\n            else:\n                compressedXs.extend(struct.pack(\">h\", x))\n            # do y\n            if y == 0:\n                flag = flag | flagYsame\n            elif -255 <= y <= 255:\n                flag = flag | flagYShort\n                if y > 0:\n                    flag = flag | flagYsame\n                else:\n                    y = -y\n                compressedYs.append(y)\n            else:\n                compressedYs.extend(struct.pack(\">h\", y))\n            # handle repeating flags\n            if flag == lastflag and repeat != 255:\n                repeat = repeat + 1\n                if repeat == 1:\n                    compressedFlags.append(flag)\n                else:\n                    compressedFlags[-2] = flag | flagRepeat\n                    compressedFlags[-1] = repeat\n            else:\n                repeat = 0\n                compressedFlags.append(flag)\n            lastflag = flag\n        return (compressedFlags, compressedXs, compressedYs)\n\n    def compileDeltasOptimal", "C02", "CompileDeltasGreedy", "alarm"),
    ("point-decode-keepflags", "ttLib/tables/_g_l_y_f.py", "            flags[i] &= keepFlags", "            flags[i] &= flagOnCurve", "C02", "CoordinatesRoundTrip", "alarm"),
    ("composite-apple-ms-swapped", "ttLib/tables/_g_l_y_f.py", "                            scale_component_offset = apple_way", "                            scale_component_offset = ms_way", "C05", "CompositeCoordinates", "alarm"),
    ("composite-anchor-sign", "ttLib/tables/_g_l_y_f.py", "                    move = x1 - x2, y1 - y2", "                    move = x2 - x1, y2 - y1", "C05", "CompositeCoordinates", "alarm"),
    ("cmap4-rangeoffset", "ttLib/tables/_c_m_a_p.py", "idRangeOffset.append(2 * (len(endCode) + len(glyphIndexArray) - i))", "idRangeOffset.append(2 * (len(endCode) + len(glyphIndexArray) - i + 1))", "C02", "Cmap4Compile", "alarm"),
    ("cmap4-decode-partial", "ttLib/tables/_c_m_a_p.py", "partial = rangeOffset // 2 - start + i - len(idRangeOffset)", "partial = rangeOffset // 2 - start + i - len(idRangeOffset) + 1", "C02", "Cmap4RoundTrip", "alarm"),
    ("cmap6-span", "ttLib/tables/_c_m_a_p.py", "            codes = list(range(codes[0], codes[-1] + 1))", "            codes = list(range(codes[0], codes[-1]))", "C02", "Cmap6Compile", "alarm"),
    ("coverage-index-step", "ttLib/tables/otTables.py", "index = index + end - start + 1", "index = index + end - start", "C06", "CoveragePreWrite", "alarm"),
    ("device-format-boundary", "otlLib/builder.py", "    elif minDelta > -9 and maxDelta < 8:", "    elif minDelta > -10 and maxDelta < 8:", "C02", "BuildDevice", "alarm"),
    ("subr-bias-boundary", "misc/psCharStrings.py", "    if nSubrs < 1240:", "    if nSubrs <= 1240:", "C05", "CalcSubrBias", "alarm"),
    ("offsize-boundary", "cffLib/__init__.py", "    elif largestOffset < 0x10000:\n        offSize = 2", "    elif largestOffset <= 0x10000:\n        offSize = 2", "C01", "CalcOffSize", "alarm"),
    ("index-offsets-start", "cffLib/__init__.py", "            pos = 1\n            offsets = [pos]", "            pos = 0\n            offsets = [pos]", "C01", "IndexCompilerToFile", "alarm"),
    ("index-items-reversed", "cffLib/__init__.py", "            for item in self.items:\n                if hasattr(item, \"toFile\"):", "            for item in reversed(self.items):\n                if hasattr(item, \"toFile\"):", "C01", "IndexCompilerToFile", "alarm"),
    ("os2-compile-live-dict", "ttLib/tables/O_S_2f_2.py", "            d = self.__dict__.copy()", "            d = vars(self)", "C16", "OS2Compile", "alarm"),
    ("submodel-cache-kept", "varLib/models.py", "        self.reverseMapping = [locations.index(l) for l in self.locations]\n        self._subModels = {}", "        self.reverseMapping = [locations.index(l) for l in self.locations]", "C09", "SparseModelHistory", "alarm"),
    ("varstore-sorted-key", "varLib/varStore.py", "        key = tuple(regionIndices)", "        key = tuple(sorted(regionIndices))", "C09", "VarStoreBuilderHistory", "alarm"),
    ("source-location-user-default", "designspaceLib/__init__.py", "            if axis.name in self.designLocation:\n                result[axis.name] = self.designLocation[axis.name]\n            else:\n                result[axis.name] = axis.map_forward(axis.default)\n        return result\n\n\nclass RuleDescriptor", "            if axis.name in self.designLocation:\n                result[axis.name] = self.designLocation[axis.name]\n            else:\n                result[axis.name] = axis.default\n        return result\n\n\nclass RuleDescriptor", "C10", "SourceFullDesignLocation", "alarm"),
    ("ensure-decompiled-no-recurse", "ttLib/tables/otBase.py", "                subtable.value.ensureDecompiled(recurse)", "                subtable.value.ensureDecompiled()", "C17", "EnsureDecompiledStep", "alarm"),
    ("req-feature-index-zero", "merge/layout.py", "    if self.ReqFeatureIndex != 65535:", "    if self.ReqFeatureIndex and self.ReqFeatureIndex != 65535:", "C18", "LangSysMapFeatures", "alarm"),
    ("merge-overwrites-instead-of-adding", "varLib/instancer/__init__.py", "            mergedVariations[axes] += var", "            mergedVariations[axes] = var", "C08", "InstantiateTupleVariationStoreMerge", "alarm"),
    ("blend-count", "cffLib/specializer.py", "            lenBlendStack += numBlends + lenStack - 1 - lastBlendIndex", "            lenBlendStack += numBlends + lenStack - 1", "C12", "ProgramCommandsBlend", "alarm"),
    ("woff2-entry-transformed", "ttLib/woff2.py", "            return self.transformVersion != 3", "            return self.transformVersion == 0", "C04", "WOFF2DirectoryEntryRoundTrip", "alarm"),
    ("sstruct-named-pad", "misc/sstruct.py", "def pack(fmt, obj):\n    formatstring, names, fixes = getformat(fmt)", "def pack(fmt, obj):\n    formatstring, names, fixes = getformat(fmt, keep_pad_byte=True)", "C15", "SstructNamedPad", "alarm"),
    ("ttc-save-opens-first", "ttLib/ttCollection.py", "        final = file\n        file = BytesIO()\n\n        tableCache", "        final = file\n        file = BytesIO() if hasattr(file, \"write\") else open(file, \"wb\")\n\n        tableCache", "C20", "TTCSave", "alarm"),
    ("composite-transform-refactor", "ttLib/tables/_g_l_y_f.py", "            px = x * t[0][0] + y * t[1][0]\n            py = x * t[0][1] + y * t[1][1]", "            (xx, xy), (yx, yy) = t\n            px = x * xx + y * yx\n            py = x * xy + y * yy", "C05", "CompositeCoordinates", "green"),
    ("coverage-format-choice-refactor", "ttLib/tables/otTables.py", "            if brokenOrder or len(ranges) * 3 < len(glyphs):  # 3 words vs. 1 word", "            useRanges = brokenOrder or len(ranges) * 3 < len(glyphs)\n            if useRanges:  # 3 words vs. 1 word", "C06", "CoveragePreWrite", "green"),
    ("reverse-offcurves-not-reversed", "pens/reverseContourPen.py", "            yield curType, tuple(reversed(curPts[:-1])) + (nextPts[-1],)", "            yield curType, tuple(curPts[:-1]) + (nextPts[-1],)", "C14", "ReversedContour", "alarm"),
    ("reverse-duplicate-point-dropped", "pens/reverseContourPen.py", "                if secondType == \"lineTo\" and firstPts != secondPts:", "                if secondType == \"lineTo\":", "C14", "ReversedContour", "green"),
    ("context-f1-coverage-not-remapped", "subset/__init__.py", "        indices = [i for i, rs in enumerate(rss) if rs and getattr(rs, c.Rule)]\n        self.Coverage.remap(indices)", "        indices = [i for i, rs in enumerate(rss) if rs and getattr(rs, c.Rule)]", "C07", "ContextFormat1Subset", "alarm"),
    ("revchain-coverage-not-remapped", "subset/__init__.py", "        self.Substitute = _list_subset(self.Substitute, indices)\n        self.Coverage.remap(indices)", "        self.Substitute = _list_subset(self.Substitute, indices)", "C07", "ReverseChainSingleSubstSubset", "alarm"),
    ("merge-curves-handle-flipped", "qu2cu/qu2cu.py", "    p2 = p3 + (p2 - p3) / ((1 - ts[-1]) if ts else 1)", "    p2 = p3 - (p2 - p3) / ((1 - ts[-1]) if ts else 1)", "C13", "MergeCurves", "alarm"),
    ("elevate-wrong-third", "qu2cu/qu2cu.py", "        (p2 * (1 / 3) + p1_2_3),", "        (p2 * (2 / 3) + p1_2_3),", "C13", "ElevateQuadratic", "alarm"),
    ("split-new-subtable-appended", "ttLib/tables/otTables.py", "        lookup.SubTable.insert(subIndex + 1, toInsert)", "        lookup.SubTable.append(toInsert)", "C06", "FixSubTableOverFlows", "alarm"),
    ("split-pairpos-class-renumber", "ttLib/tables/otTables.py", "            k: (v - oldCount) for k, v in classDefs.items() if v > oldCount", "            k: (v - oldCount) for k, v in classDefs.items() if v >= oldCount + 2", "C06", "SplitPairPosFormat2", "alarm"),
    ("split-markbase-class-shift", "ttLib/tables/otTables.py", "            markRecord.Class -= oldClassCount", "            markRecord.Class -= newClassCount", "C06", "SplitMarkBasePos", "alarm"),
    ("sharing-across-extension", "ttLib/tables/otBase.py", "        if isExtension and not shareExtension:\n            internedTables = {}", "        if isExtension and shareExtension:\n            internedTables = {}", "C06", "WriterDoneWriting", "alarm"),
    ("area-cubic-constant", "pens/areaPen.py", "x3 * (y1 + 2 * y2)) * 0.15", "x3 * (y1 + 2 * y2)) * 0.16", "C14", "AreaPenValue", "alarm"),
    ("transform-pen-skips-lineto", "pens/transformPen.py", "    def lineTo(self, pt):\n        self._outPen.lineTo(self._transformPoint(pt))", "    def lineTo(self, pt):\n        self._outPen.lineTo(pt)", "C14", "TransformAndRoundingPens", "alarm"),
    ("point-pen-rotation", "pens/pointPen.py", "                points = points[firstOnCurve + 1 :] + points[: firstOnCurve + 1]", "                points = points[firstOnCurve:] + points[:firstOnCurve]", "C14", "SegmentPointRoundTrip", "alarm"),
    ("quadratic-bounds-root-sign", "misc/bezierTools.py", "        roots.append(-by / ay2)", "        roots.append(by / ay2)", "C14", "QuadraticBounds", "alarm"),
    # round 3
    ("options-shared-drop-tables", "subset/__init__.py", "self.drop_tables = self._drop_tables_default[:]", "self.drop_tables = self._drop_tables_default", "C16", "OptionsDefaultsAreNotShared", "alarm"),
    ("merge-scripts-first-default-only", "merge/layout.py", "dfltLangSyses = [s.DefaultLangSys for s in lst if s.DefaultLangSys]", "dfltLangSyses = [s.DefaultLangSys for s in lst[:1] if s.DefaultLangSys]", "C18", "MergeScriptRecords", "alarm"),
    ("merge-scripts-sorted-spelling", "merge/layout.py", "    for tag, langSys_list in sorted(langSyses.items()):", "    for tag in sorted(langSyses):\n        langSys_list = langSyses[tag]", "C18", "MergeScriptRecords", "green"),
    ("implied-oncurve-union", "ttLib/tables/_g_l_y_f.py", "            drop.intersection_update(may_drop)", "            drop.update(may_drop)", "C10", "DropImpliedOnCurvePoints", "alarm"),
    ("implied-oncurve-mixed-neighbours", "ttLib/tables/_g_l_y_f.py", "                if (flags[prv] & flagOnCurve) or flags[prv] != flags[nxt]:", "                if flags[prv] & flagOnCurve:", "C10", "DropImpliedOnCurvePoints", "alarm"),
    ("implied-oncurve-prev-spelling", "ttLib/tables/_g_l_y_f.py", "                prv = i - 1 if i > start else last", "                prv = last if i == start else i - 1", "C10", "DropImpliedOnCurvePoints", "green"),
    ("spline-first-piece-unchecked", "qu2cu/qu2cu.py", "                if not cubic_farthest_fit_inside(p0, p1, p2, p3, tolerance):", "                if k and not cubic_farthest_fit_inside(p0, p1, p2, p3, tolerance):", "C13", "SplineToCurvesChecksEveryPiece", "alarm"),
    ("spline-corner-not-forced", "qu2cu/qu2cu.py", "        if i in forced:\n            start = i", "        if i in forced and i < 0:\n            start = i", "C13", "SplineToCurvesChecksEveryPiece", "alarm"),
    ("subr-renumber-adds-bias", "cffLib/transforms.py", "                gsubrs._used.index(p[i - 1] + gsubrs._old_bias) - gsubrs._new_bias", "                gsubrs._used.index(p[i - 1] + gsubrs._old_bias) + gsubrs._new_bias", "C12", "SubsetSubroutineCalls", "alarm"),
    ("triplet-decode-y-high-bits", "ttLib/woff2.py", "flag >> 1, 1 + (((b0 % 12) >> 2) << 8) + triplets[tripletIndex + 1]", "flag >> 1, 1 + (((b0 % 12) >> 1) << 8) + triplets[tripletIndex + 1]", "C15", "TripletDecode", "alarm"),
    ("triplet-encode-class-bound", "ttLib/woff2.py", "            elif absX < 769 and absY < 769:", "            elif absX < 770 and absY < 769:", "C15", "TripletEncode", "alarm"),
    ("triplet-encode-sign-spelling", "ttLib/woff2.py", "            xSignBit = 0 if (x < 0) else 1", "            xSignBit = 1 if (x >= 0) else 0", "C15", "TripletEncode", "green"),
    ("gpos-zero-cell-either-value", "otlLib/optimize/gpos.py", "    return (v1 is None or v1.getEffectiveFormat() == 0) and (", "    return (v1 is None or v1.getEffectiveFormat() == 0) or (", "C06", "gpos", "alarm"),
    ("mutator-value-delta-sign", "varLib/merger.py", "        setattr(self, name, getattr(self, name, 0) + delta)", "        setattr(self, name, getattr(self, name, 0) - delta)", "C08", "MutatorMergeValueRecord", "alarm"),
    ("mutator-anchor-always-x", "varLib/merger.py", '        attr = v + "Coordinate"', '        attr = "XCoordinate"', "C08", "MutatorMergeAnchor", "alarm"),
    ("closure-memo-never-invalidated", "subset/__init__.py", "    if count != len(s.glyphs):\n        count, covered = doneLookups[key] = (len(s.glyphs), set())", "    if count > len(s.glyphs):\n        count, covered = doneLookups[key] = (len(s.glyphs), set())", "C07", "LookupClosureMemo", "alarm"),
    ("gvar-order-simple-first-only", "varLib/instancer/__init__.py", "                glyf[name].getCompositeMaxpValues(glyf).maxComponentDepth\n                if glyf[name].isComposite()\n                else 0", "                1\n                if glyf[name].isComposite()\n                else 0", "C08", "InstantiateGvarOrder", "alarm"),
    ("debg-dump-skips-undocumented-lookups", "ttLib/tables/otTables.py", "                        xmlWriter.comment(tag)\n                        xmlWriter.newline()\n\n                    conv.xmlWrite(", "                        xmlWriter.comment(tag)\n                        xmlWriter.newline()\n                    else:\n                        continue\n\n                    conv.xmlWrite(", "C03", "LookupListDumpWithDebugInfo", "alarm"),
    ("avar-values-normalised-by-keys", "varLib/__init__.py", "        vals = [models.normalizeValue(v, vals_triple) for v in vals]", "        vals = [models.normalizeValue(v, keys_triple) for v in vals]", "C10", "AddAvarWritesTheAxisMap", "alarm"),
    ("avar-identity-test-any", "varLib/__init__.py", "        if all(k == v for k, v in zip(keys, vals)):", "        if any(k == v for k, v in zip(keys[1:-1], vals[1:-1])):", "C10", "AddAvarWritesTheAxisMap", "alarm"),
    ("avar-identity-test-spelling", "varLib/__init__.py", "        if all(k == v for k, v in zip(keys, vals)):", "        if keys == vals:", "C10", "AddAvarWritesTheAxisMap", "green"),
    ("t1-parse-leniv-truthy", "t1Lib/__init__.py", 'lenIV = self.font["Private"].get("lenIV", 4)', 'lenIV = self.font["Private"].get("lenIV") or 4', "C15", "T1ParseStripsLenIV", "alarm"),
    ("t1-encode-prefix-from-constant", "t1Lib/__init__.py", "bytesjoin([char_IV[:1] * lenIV, char_bin.bytecode])", "bytesjoin([char_IV[:lenIV], char_bin.bytecode])", "C15", "T1EncodePrependsLenIV", "alarm"),
    ("glyph-compile-packed-verbatim", "ttLib/tables/_g_l_y_f.py", "            if recalcBBoxes:\n                # must unpack glyph in order to recalculate bounding box\n                self.expand(glyfTable)\n            else:\n                return self.data", "            return self.data", "C04", "GlyphCompileHeaderBox", "alarm"),
    ("glyph-compile-no-recalc", "ttLib/tables/_g_l_y_f.py", "        if recalcBBoxes:\n            self.recalcBounds(glyfTable, boundsDone=boundsDone)\n\n        data = sstruct.pack(glyphHeaderFormat, self)", "        data = sstruct.pack(glyphHeaderFormat, self)", "C04", "GlyphCompileHeaderBox", "alarm"),
    ("merge-cff-width-old-nominal", "merge/tables.py", "                    c.program.insert(0, width - newNominalWidthX)", "                    c.program.insert(0, width - nominalWidthX)", "C18", "MergeCFFKeepsWidths", "alarm"),
    ("scale-vorg-records-on-vmtx", "ttLib/scaleUpem.py", '@ScalerVisitor.register_attr(ttLib.getTableClass("VORG"), "VOriginRecords")', '@ScalerVisitor.register_attr(ttLib.getTableClass("VMTX"), "VOriginRecords")', "C17", "ScalerVisitsContainers", "alarm"),
    ("scale-hhea-caret-offset-forgotten", "ttLib/scaleUpem.py", '                "xMaxExtent",\n                "caretOffset",\n            ),\n        ),\n        (\n            ttLib.getTableClass("vhea"),', '                "xMaxExtent",\n            ),\n        ),\n        (\n            ttLib.getTableClass("vhea"),', "C17", "ScalerVisitsDeclaredFields", "alarm"),
    ("scale-kern-coverage-too", "ttLib/scaleUpem.py", "            kernTable[k] = visitor.scale(kernTable[k])", "            kernTable[k] = visitor.scale(kernTable[k])\n        table.coverage = visitor.scale(table.coverage)", "C17", "ScalerVisitsContainers", "alarm"),
    ("gvar-iup-from-varied-outline", "ttLib/ttGlyphSet.py", "                delta = iup_delta(delta, origCoords, endPts)", "                delta = iup_delta(delta, coordinates, endPts)", "C05", "GlyfGlyphInstance", "alarm"),
    ("gvar-zero-scalar-not-skipped", "ttLib/ttGlyphSet.py", "            if not scalar:\n                continue\n            delta = var.coordinates", "            delta = var.coordinates", "C05", "GlyfGlyphInstance", "green"),
    ("phantom-lsb-from-right", "ttLib/ttGlyphSet.py", "    leftSideBearing = otRound(glyph.xMin - leftSideX)", "    leftSideBearing = otRound(glyph.xMin - rightSideX)", "C05", "SetCoordinatesPhantoms", "alarm"),
    ("phantom-components-not-copied", "ttLib/ttGlyphSet.py", "        glyph.components = [copy(comp) for comp in glyph.components]  # Shallow copy", "        glyph.components = list(glyph.components)", "C05", "SetCoordinatesPhantoms", "alarm"),
    ("glyphset-shift-inside-composites", "ttLib/ttGlyphSet.py", "            if depth:\n                offset = 0  # Offset should only apply at top-level\n\n            glyph.draw(pen, self.glyphSet.glyfTable, offset)", "            glyph.draw(pen, self.glyphSet.glyfTable, offset)", "C05", "GlyphSetMetricsAndShift", "alarm"),
    ("glyphset-hvar-by-gid-always", "ttLib/ttGlyphSet.py", "                if glyphSet.hvarTable.AdvWidthMap is None\n                else glyphSet.hvarTable.AdvWidthMap.mapping[glyphName]", "                if True\n                else glyphSet.hvarTable.AdvWidthMap.mapping[glyphName]", "C05", "GlyphSetMetricsAndShift", "alarm"),
    ("vhvar-implicit-index-zero", "varLib/instancer/__init__.py", "                    varIdx = varfont.getGlyphID(glyphName)", "                    varIdx = 0", "C08", "InstantiateVHVAR", "alarm"),
    ("mvar-negative-deltas-skipped", "varLib/instancer/__init__.py", "        if delta != 0:\n            setattr(\n                varfont[tableTag],", "        if delta > 0:\n            setattr(\n                varfont[tableTag],", "C08", "InstantiateMVAR", "alarm"),
    ("varstore-adapter-sorted-regions", "varLib/instancer/__init__.py", "            varDataRegions = (regions[i] for i in varData.VarRegionIndex)", "            varDataRegions = (regions[i] for i in sorted(varData.VarRegionIndex))", "C08", "TupleVarStoreAdapterRoundTrip", "alarm"),
    ("fvar-instance-range-open-at-minimum", "varLib/instancer/__init__.py", "            if coord < axisRange.minimum or coord > axisRange.maximum:\n                return False\n    return True", "            if coord <= axisRange.minimum or coord > axisRange.maximum:\n                return False\n    return True", "C08", "InstantiateFvar", "alarm"),
    ("avar-instancing-wrong-renormalisation", "varLib/instancer/__init__.py", "                toCoord = mappedAxisLimit.renormalizeValue(toCoord)", "                toCoord = axisRange.renormalizeValue(toCoord)", "C08", "InstantiateAvarV1", "alarm"),
    ("blend-zero-regions-wipes-stack", "misc/psCharStrings.py", "                len(self.operandStack) - (numOps - numBlends) :", "                -(numOps - numBlends) :", "C05", "T2Blend", "alarm"),
    ("woff2-hmtx-flag-bits-swapped", "ttLib/woff2.py", "        if not hasLsbArray:\n            flags |= 1 << 0", "        if not hasLsbArray:\n            flags |= 1 << 1", "C04", "WOFF2HmtxTransformRoundTrip", "alarm"),
    ("pairpos2-class2-truncated", "subset/__init__.py", "            c.Class2Record = [c.Class2Record[i] for i in class2_map]", "            c.Class2Record = c.Class2Record[: len(class2_map)]", "C07", "PairPosFormat2Subset", "alarm"),
    ("markbase-classes-not-renumbered", "subset/__init__.py", "        for m in self.MarkArray.MarkRecord:\n            m.Class = class_indices.index(m.Class)\n        for b in self.BaseArray.BaseRecord:", "        for b in self.BaseArray.BaseRecord:", "C07", "MarkBasePosSubset", "alarm"),
    ("context2-unreachable-rulesets-kept", "subset/__init__.py", "        rss = [rss if i in indices else None for i, rss in enumerate(rss)]", "        rss = list(rss)", "C07", "ContextFormat2Subset", "green"),
    ("context2-rule-classes-not-remapped", "subset/__init__.py", "                        [klass_map.index(k) for k in klist]", "                        [k for k in klist]", "C07", "ContextFormat2Subset", "alarm"),
    ("ligature-closure-any-component", "subset/__init__.py", "[seq.LigGlyph for seq in seqs if all(c in s.glyphs for c in seq.Component)]", "[seq.LigGlyph for seq in seqs if any(c in s.glyphs for c in seq.Component)]", "C07", "LigatureSubstClosure", "alarm"),
    ("langsys-required-feature-not-renumbered", "subset/__init__.py", "        self.ReqFeatureIndex = feature_indices.index(self.ReqFeatureIndex)", "        self.ReqFeatureIndex = self.ReqFeatureIndex", "C07", "LangSysSubsetFeatures", "alarm"),
    ("dflt-default-langsys-dropped", "subset/__init__.py", '        if s.Script.subset_features(feature_indices, s.ScriptTag == "DFLT")', "        if s.Script.subset_features(feature_indices, False)", "C07", "ScriptListSubsetFeatures", "alarm"),
    ("cmap-format12-sibling-by-keys-only", "subset/__init__.py", "            and table_plat3_enc1[t.language].cmap == t.cmap", "            and table_plat3_enc1[t.language].cmap.keys() == t.cmap.keys()", "C07", "CmapSubset", "alarm"),
    ("gdef-null-mark-set", "subset/__init__.py", "            i for i, c in enumerate(markGlyphSets.Coverage) if c and c.glyphs", "            i for i, c in enumerate(markGlyphSets.Coverage) if c.glyphs", "C07", "GDEFSubset", "alarm"),
    ("gvar-glyph-padding-by-data-only", "ttLib/tables/_g_v_a_r.py", "    if (offsetToData + len(data)) % 2 != 0:", "    if len(data) % 2 != 0:", "C02", "GvarCompileGlyphLayout", "alarm"),
    ("gvar-short-offsets-limit", "ttLib/tables/_g_v_a_r.py", "        if max(offsets) <= 0xFFFF * 2:", "        if max(offsets) <= 0xFFFF * 2 + 2:", "C02", "GvarOffsetsRoundTrip", "alarm"),
    ("name-records-unsorted", "ttLib/tables/_n_a_m_e.py", "        names.sort()  # sort according to the spec; see NameRecord.__lt__()", "        pass", "C02", "NameTableRoundTrip", "alarm"),
    ("hdmx-widths-in-dict-order", "ttLib/tables/_h_d_m_x.py", "            for glyphName in glyphOrder:\n                width = widths[glyphName]", "            for glyphName in widths:\n                width = widths[glyphName]", "C02", "HdmxRoundTrip", "alarm"),
    ("meta-offsets-not-advanced", "ttLib/tables/_m_e_t_a.py", "            dataOffset += len(data)", "            dataOffset += 0", "C02", "MetaRoundTrip", "alarm"),
    ("desub-patch-keeps-subr-number", "cffLib/transforms.py", "            desubroutinized[idx - 2 : idx] = expansion", "            desubroutinized[idx - 1 : idx] = expansion", "C12", "DesubroutinizeCharString", "alarm"),
    ("desub-no-cut-after-endchar", "cffLib/transforms.py", '                    : desubroutinized.index("endchar") + 1', "                    : len(desubroutinized)", "C12", "DesubroutinizeCharString", "alarm"),
    ("unused-subrs-not-renumbered-inside-subrs", "cffLib/transforms.py", "            for subr in subrs.items:\n                _cs_subset_subroutines(subr, local_subrs, font.GlobalSubrs)", "            pass", "C12", "RemoveUnusedSubroutines", "alarm"),
    ("dehint-mask-operand-left", "cffLib/transforms.py", "                del p[i : i + 2]", "                del p[i : i + 1]", "C12", "RemoveHintsKeepsOutlines", "alarm"),
    ("dehint-width-test-inverted", "cffLib/transforms.py", "            if charstring.width != charstring.private.defaultWidthX:", "            if charstring.width == charstring.private.defaultWidthX:", "C12", "RemoveHintsKeepsOutlines", "alarm"),
    ("overflow-promotes-one-lookup-only", "ttLib/tables/otTables.py", "    for lookupIndex in range(lookupIndex, len(lookups)):\n        lookup = lookups[lookupIndex]\n        if lookup.LookupType != extType:", "    for lookupIndex in range(lookupIndex, lookupIndex + 1):\n        lookup = lookups[lookupIndex]\n        if lookup.LookupType != extType:", "C06", "FixLookupOverFlows", "alarm"),
    ("mvar-first-table-model-reused", "varLib/__init__.py", "        if tableTag != lastTableTag:\n            tables = fontTable = None", "        if tableTag != lastTableTag and lastTableTag is None:\n            tables = fontTable = None", "C10", "AddMVAR", "alarm"),
    ("gvar-deltas-paired-with-wrong-support", "varLib/__init__.py", "        for i, (delta, support) in enumerate(zip(deltas[1:], supports[1:])):", "        for i, (delta, support) in enumerate(zip(deltas[1:], supports)):", "C10", "AddGvar", "alarm"),
    ("vorg-default-of-first-master", "varLib/__init__.py", "                metrics[glyph] if glyph in metrics else defaultVOrig", "                metrics[glyph] if glyph in metrics else vOrigMetricses[0][1]", "C10", "GetAdvanceMetrics", "alarm"),
    ("t2pen-current-point-not-advanced", "pens/t2CharStringPen.py", "        pt = self._p0 = (self.round(pt[0]), self.round(pt[1]))", "        pt = (self.round(pt[0]), self.round(pt[1]))", "C14", "T2CharStringPenRoundTrip", "alarm"),
    ("t2pen-delta-rounded-again", "pens/t2CharStringPen.py", "        return [pt[0] - p0[0], pt[1] - p0[1]]", "        return [self.round(pt[0] - p0[0]), pt[1] - p0[1]]", "C14", "T2CharStringPenRoundTrip", "green"),
    ("varstore-scalars-not-refreshed", "varLib/varStore.py", "    def _clearCaches(self):\n        self._scalars = {}", "    def _clearCaches(self):\n        self._scalars = getattr(self, '_scalars', {})", "C09", "VarStoreInstancerValue", "alarm"),
    ("varstore-subset-old-major", "varLib/varStore.py", "                varDataMap[(major << 16) + minor] = (newMajor << 16) + newMinor", "                varDataMap[(major << 16) + minor] = (major << 16) + newMinor", "C09", "VarStoreSubsetVarIdxes", "alarm"),
    ("varstore-regions-reversed", "varLib/varStore.py", "    for i in sorted(usedRegions):", "    for i in sorted(usedRegions, reverse=True):", "C09", "VarStoreSubsetVarIdxes", "green"),
    ("numshorts-one-column-short", "varLib/builder.py", "            max((i for i, b in enumerate(byte_lengths) if b > 1), default=-1) + 1", "            max((i for i, b in enumerate(byte_lengths) if b > 1), default=-1)", "C09", "CalculateNumShorts", "alarm"),
    ("remap-components-xy-scale-size", "subset/__init__.py", "        elif flags & 0x0040:\n            i += 4  # WE_HAVE_AN_X_AND_Y_SCALE", "        elif flags & 0x0040:\n            i += 2  # WE_HAVE_AN_X_AND_Y_SCALE", "C07", "RemapComponentsFast", "alarm"),
    ("compile-loop-returns-fallback-packing", "ttLib/tables/otBase.py", "                    self.tryPackingFontTools(writer)\n                    log.debug(", "                    return self.tryPackingFontTools(writer)\n                    log.debug(", "C06", "CompileRetryLoop", "alarm"),
    ("glyph-order-stale-reverse-map", "ttLib/ttFont.py", '        if hasattr(self, "_reverseGlyphOrderDict"):\n            del self._reverseGlyphOrderDict\n        if self.isLoaded("glyf"):', '        if self.isLoaded("glyf"):', "C17", "GlyphOrderHistory", "alarm"),
    ("deleted-table-resurrected", "ttLib/ttFont.py", "        if self.reader and tag in self.reader:\n            del self.reader[tag]\n", "", "C16", "TableAccessOrder", "alarm"),
    ("tag-order-dsig-not-last", "ttLib/ttFont.py", '            tagList.remove("DSIG")\n            tagList.append("DSIG")', '            pass', "C04", "SortedTagList", "alarm"),
    ("ttpen-end-point-after-dropped-duplicate", "pens/ttGlyphPen.py", "                self._popPoint()\n                endPt -= 1", "                self._popPoint()", "C14", "TTGlyphPenSimpleGlyph", "alarm"),
    ("ttpen-cubic-offcurves-as-quadratic", "pens/ttGlyphPen.py", "        for pt in points[:-1]:\n            self._addPoint(pt, flagCubic)", "        for pt in points[:-1]:\n            self._addPoint(pt, 0)", "C14", "TTGlyphPenSimpleGlyph", "alarm"),
    ("trim-header-only-glyph", "ttLib/tables/_g_l_y_f.py", "        if numContours == 0:\n            # Some fonts have glyphs with a header and numberOfContours 0 (see\n            # expand()): there is no outline data whose end could be located.\n            return\n", "", "C07", "GlyphTrim", "alarm"),
    ("glyf-odd-padding-without-size-check", "ttLib/tables/_g_l_y_f.py", "            if indices and currentLocation + len(indices) < 0x20000:", "            if indices:", "C04", "GlyfTableCompile", "alarm"),
    ("woff2-bbox-bit-order", "ttLib/woff2.py", "        self.bboxBitmap[glyphID >> 3] |= 0x80 >> (glyphID & 7)", "        self.bboxBitmap[glyphID >> 3] |= 0x01 << (glyphID & 7)", "C04", "WOFF2BBoxCodec", "alarm"),
    ("woff2-overlap-decoder-overwrites-flags", "ttLib/woff2.py", "            glyph.flags[0] |= _g_l_y_f.flagOverlapSimple", "            glyph.flags[0] = _g_l_y_f.flagOverlapSimple", "C04", "WOFF2OverlapSimpleFlagCodec", "alarm"),
    ("woff2-npoints-stream-advanced-late", "ttLib/woff2.py", "        self.nPointsStream = data\n        self._decodeTriplets(glyph)", "        self._decodeTriplets(glyph)\n        self.nPointsStream = data", "C04", "WOFF2ContourEndPointsRoundTrip", "alarm"),
    ("woff2-endpoints-list-copy", "ttLib/woff2.py", "        for endPoint in glyph.endPtsOfContours:\n            ptsOfContour = endPoint - lastEndPoint", "        for endPoint in list(glyph.endPtsOfContours):\n            ptsOfContour = endPoint - lastEndPoint", "C04", "WOFF2ContourEndPointsRoundTrip", "green"),
    ("woff2-instruction-stream-off-by-one", "ttLib/woff2.py", "        self.instructionStream = instructionStream[instructionLength:]", "        self.instructionStream = instructionStream[instructionLength + 1:]", "C04", "WOFF2InstructionsRoundTrip", "alarm"),
    ("woff2-decode-steps-reordered", "ttLib/woff2.py", "            self._decodeCoordinates(glyph)\n            self._decodeOverlapSimpleFlag(glyph, glyphID)", "            self._decodeOverlapSimpleFlag(glyph, glyphID)\n            self._decodeCoordinates(glyph)", "C04", "WOFF2GlyphDispatch", "alarm"),
    ("woff2-components-instr-flag-last-only", "ttLib/woff2.py", "            haveInstructions = haveInstructions | haveInstr", "            haveInstructions = haveInstr", "C04", "WOFF2ComponentsLoop", "alarm"),
    ("woff2-components-flag-on-every-record", "ttLib/woff2.py", "            if i == lastcomponent:\n                haveInstructions = hasattr(glyph, \"program\")\n                more = 0", "            haveInstructions = hasattr(glyph, \"program\")\n            if i == lastcomponent:\n                more = 0", "C04", "WOFF2ComponentsLoop", "alarm"),
    ("woff2-glyf-trailing-bytes-accepted", "ttLib/woff2.py", "        if offset != inputDataSize:", "        if offset > inputDataSize:", "C04", "WOFF2GlyfContainerRoundTrip", "alarm"),
    ("woff2-glyf-overlap-bitmap-always-written", "ttLib/woff2.py", "        if hasOverlapSimpleBitmap:\n            data += self.overlapSimpleBitmap.tobytes()\n        return data", "        data += self.overlapSimpleBitmap.tobytes()\n        return data", "C04", "WOFF2GlyfContainerRoundTrip", "alarm"),
    ("woff2-loca-short-limit-off-by-one", "ttLib/woff2.py", "                if max_location >= 0x20000:", "                if max_location > 0x20000:", "C04", "WOFF2LocaCompile", "alarm"),
    ("woff2-private-data-padding", "ttLib/woff2.py", "            offset = (offset + 3) & ~3\n            self.privOffset = offset", "            offset = (offset + 4) & ~3\n            self.privOffset = offset", "C04", "WOFF2FlavorDataOffsets", "alarm"),
    ("woff2-orig-offsets-unpadded", "ttLib/woff2.py", "            offset += (entry.origLength + 3) & ~3\n        return offset", "            offset += entry.origLength\n        return offset", "C04", "WOFF2OrigOffsets", "alarm"),
    ("woff2-master-checksum-compressed-offsets", "ttLib/woff2.py", "            sfntEntry.offset = entry.origOffset", "            sfntEntry.offset = entry.offset", "C04", "WOFF2MasterChecksum", "alarm"),
    ("woff2-total-size-pads-before-compressed", "ttLib/woff2.py", "        offset += self.totalCompressedSize\n        offset = (offset + 3) & ~3", "        offset = (offset + 3) & ~3\n        offset += self.totalCompressedSize", "C04", "WOFF2TotalSize", "alarm"),
    ("woff2-reader-pads-table-offsets", "ttLib/woff2.py", "            entry.offset = offset\n            offset += entry.length\n\n        totalUncompressedSize = offset", "            entry.offset = offset\n            offset += (entry.length + 3) & ~3\n\n        totalUncompressedSize = offset", "C04", "WOFF2ReaderOffsets", "alarm"),
    ("woff2-reader-accepts-longer-stream", "ttLib/woff2.py", "        if len(decompressedData) != totalUncompressedSize:", "        if len(decompressedData) < totalUncompressedSize:", "C04", "WOFF2ReaderOffsets", "alarm"),
    ("woff2-loca-stays-transformed-after-glyf-gave-up", "ttLib/woff2.py", '                    transformedTables.discard("loca")', "                    pass", "C04", "WOFF2TransformTablesLoop", "alarm"),
    ("woff2-transformed-flag-set-then-cleared", "ttLib/woff2.py", "                if data is not None:\n                    entry.transformed = True", "                entry.transformed = True", "C04", "WOFF2TransformTablesLoop", "green"),
    ("overflow-promotes-after-a-successful-split", "ttLib/tables/otBase.py", "        if ok:\n            return ok\n\n        # Try upgrading lookup to Extension and hope", "        # Try upgrading lookup to Extension and hope", "C06", "ResolveOverflowChoice", "alarm"),
    ("ttglyphpen-negative-overflow-not-decomposed", "pens/ttGlyphPen.py", "                s > 2 or s < -2", "                s > 2", "C14", "TTGlyphPenBuildComponents", "alarm"),
    ("ttglyphpen-exact-two-not-clamped", "pens/ttGlyphPen.py", "                        MAX_F2DOT14 if MAX_F2DOT14 < s <= 2 else s", "                        MAX_F2DOT14 if MAX_F2DOT14 < s < 2 else s", "C14", "TTGlyphPenBuildComponents", "alarm"),
    ("closure-memo-subset-spelling", "subset/__init__.py", "    if cur_glyphs.issubset(covered):\n        return\n    covered.update(cur_glyphs)\n\n    for st in self.SubTable:", "    if cur_glyphs <= covered:\n        return\n    covered.update(cur_glyphs)\n\n    for st in self.SubTable:", "C07", "LookupClosureMemo", "green"),
]


def run_one(entry):
    ident, rel, old, new, prop, only, expect = entry
    d = tempfile.mkdtemp(prefix="selftest_")
    try:
        shutil.copytree(os.path.join(os.environ.get("VERIF_REPO_ORIG", "/repo"), "Lib"), os.path.join(d, "Lib"))
        p = os.path.join(d, "Lib", "fontTools", rel)
        s = open(p).read()
        if old not in s:
            return ident, expect, "PATTERN-NOT-FOUND", ""
        open(p, "w").write(s.replace(old, new, 1))
        env = dict(os.environ, VERIF_REPO=d, VERIF_JOBS="2")
        r = subprocess.run([os.path.join(VERIF, "bin", "vcheck"), "quick", prop, "--only", only], capture_output=True, text=True, env=env, timeout=1800)
        out = r.stdout
        viol = [l for l in out.splitlines() if l.startswith("VIOLATION")]
        und = [l for l in out.splitlines() if l.startswith("UNDECIDED") and "reach" not in l]
        if expect == "alarm":
            ok = bool(viol)
        else:
            ok = not viol and r.returncode in (0,)
        return ident, expect, "ok" if ok else "UNEXPECTED(exit %d, %d violations, %d undecided)" % (r.returncode, len(viol), len(und)), (viol[0][:160] if viol else "")
    finally:
        shutil.rmtree(d, ignore_errors=True)


def main(argv):
    sel = [e for e in CATALOGUE if not argv or any(a in e[0] or a == e[4] for a in argv)]
    bad = 0
    with ThreadPoolExecutor(max_workers=6) as ex:
        for ident, expect, verdict, detail in ex.map(run_one, sel):
            print("%-28s expect=%-5s %s %s" % (ident, expect, verdict, detail))
            if verdict != "ok":
                bad += 1
    print("selftest: %d of %d as expected" % (len(sel) - bad, len(sel)))
    return 0 if bad == 0 else 1
