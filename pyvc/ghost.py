"""Ghost collections and a symbolic Tag for code that keys dictionaries by table tags read
from an arbitrary file, plus a model of zlib for readers of compressed containers."""
from __future__ import annotations

import collections

import z3

from . import sym
from .blobs import Atom, Blob
from .models import SymBytes
from .sym import SymBool, SymNum, Unsupported, ctx


class SymTag:
    """fontTools.misc.textTools.Tag over symbolic bytes: compares by content, hashes by
    identity (two equal symbolic tags are kept as two keys: an over-approximation that is
    sound for exception-freedom and frame obligations; stated where used)."""

    def __init__(self, content):
        self.b = content if isinstance(content, SymBytes) else SymBytes.of(content)

    def _other(self, o):
        if isinstance(o, SymTag):
            return o.b
        if isinstance(o, str):
            return SymBytes.of(o.encode("latin-1"))
        if isinstance(o, (bytes, SymBytes)):
            return SymBytes.of(o)
        return None

    def __eq__(self, o):
        ob = self._other(o)
        if ob is None:
            return False
        return self.b == ob

    def __ne__(self, o):
        return sym.Not(self.__eq__(o))

    def __hash__(self):
        return id(self)

    def tobytes(self):
        return self.b

    def __repr__(self):
        return "SymTag(%r)" % (self.b,)

    def __str__(self):
        return "<tag>"

    def __format__(self, spec):
        return "<tag>"

    def __deepcopy__(self, memo):
        return self


def make_tag_model(real_tag):
    class _TagMeta(type):
        def __instancecheck__(cls, obj):
            return isinstance(obj, (real_tag, SymTag))

        def __call__(cls, content):
            if isinstance(content, SymTag):
                return content
            if isinstance(content, SymBytes):
                c = content.concrete()
                if c is not None:
                    return real_tag(c)
                return SymTag(content)
            if isinstance(content, Blob):
                raise Unsupported("Tag of a symbolic-length blob")
            return real_tag(content)

        def __getattr__(cls, name):
            return getattr(real_tag, name)

    class Tag(metaclass=_TagMeta):
        pass

    return Tag


class GhostDict:
    """A dictionary about which nothing is known (the state of a dict filled by a cut loop)."""

    def __init__(self, name="d"):
        self.name = name
        self.stores = []

    def __setitem__(self, k, v):
        self.stores.append((k, v))

    def items(self):
        return GhostItems(self)

    def keys(self):
        return GhostItems(self)

    def values(self):
        return GhostItems(self)

    def __contains__(self, k):
        return bool(ctx().fresh_bool("in_" + self.name))

    def __len__(self):
        raise Unsupported("len() of a ghost dict")

    def __deepcopy__(self, memo):
        return self


class GhostItems:
    def __init__(self, d):
        self.d = d


def sorted_(it, *a, **k):
    if isinstance(it, GhostItems):
        return it           # sorting ints/offsets of a ghost collection raises nothing
    return sorted(it, *a, **k)


class _ODMeta(type):
    def __call__(cls, *a, **k):
        if a and isinstance(a[0], GhostItems):
            return a[0].d
        return collections.OrderedDict(*a, **k)

    def __instancecheck__(cls, obj):
        return isinstance(obj, (collections.OrderedDict, GhostDict))


class OrderedDict_(metaclass=_ODMeta):
    pass


# -- zlib -----------------------------------------------------------------------------------

import zlib as _real_zlib


class ZlibModel:
    """zlib for readers: decompress of symbolic input returns bytes of ARBITRARY length and
    content, or raises zlib.error - the assumed contract of the external library."""

    error = _real_zlib.error

    def __init__(self):
        self.n = 0

    def decompress(self, data, *a, **k):
        if isinstance(data, (bytes, bytearray)):
            return _real_zlib.decompress(data, *a, **k)
        c = ctx()
        if bool(c.fresh_bool("zlib_fails")):
            raise _real_zlib.error("Error -3 while decompressing data")
        self.n += 1
        at = Atom("inflated%d" % self.n)
        c.assume_term(at.n.t >= 0)
        return at.blob()

    def compress(self, data, *a, **k):
        if isinstance(data, (bytes, bytearray)):
            return _real_zlib.compress(data, *a, **k)
        c = ctx()
        self.n += 1
        at = Atom("deflated%d" % self.n)
        c.assume_term(at.n.t >= 0)
        return at.blob()

    def __getattr__(self, name):
        return getattr(_real_zlib, name)
