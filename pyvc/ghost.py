"""Ghost collections and a symbolic Tag for code that keys dictionaries by table tags read
from an arbitrary file, plus a model of zlib for readers of compressed containers."""
from __future__ import annotations

import collections

import z3

from . import sym
from .blobs import Atom, Blob
from .models import SymBytes
from .sym import SymBool, SymNum, Unsupported, ctx


class SymTag:
    """fontTools.misc.textTools.Tag over symbolic bytes: compares by content, hashes by
    identity (two equal symbolic tags are kept as two keys: an over-approximation that is
    sound for exception-freedom and frame obligations; stated where used)."""

    def __init__(self, content):
        self.b = content if isinstance(content, SymBytes) else SymBytes.of(content)

    def _other(self, o):
        if isinstance(o, SymTag):
            return o.b
        if isinstance(o, str):
            return SymBytes.of(o.encode("latin-1"))
        if isinstance(o, (bytes, SymBytes)):
            return SymBytes.of(o)
        return None

    def __eq__(self, o):
        ob = self._other(o)
        if ob is None:
            return False
        return self.b == ob

    def __ne__(self, o):
        return sym.Not(self.__eq__(o))

    def __hash__(self):
        return id(self)

    def tobytes(self):
        return self.b

    def __repr__(self):
        return "SymTag(%r)" % (self.b,)

    def __str__(self):
        return "<tag>"

    def __format__(self, spec):
        return "<tag>"

    def __deepcopy__(self, memo):
        return self


def make_tag_model(real_tag):
    class _TagMeta(type):
        def __instancecheck__(cls, obj):
            return isinstance(obj, (real_tag, SymTag))

        def __call__(cls, content):
            if isinstance(content, SymTag):
                return content
            if isinstance(content, SymBytes):
                c = content.concrete()
                if c is not None:
                    return real_tag(c)
                return SymTag(content)
            if isinstance(content, Blob):
                raise Unsupported("Tag of a symbolic-length blob")
            return real_tag(content)

        def __getattr__(cls, name):
            return getattr(real_tag, name)

    class Tag(metaclass=_TagMeta):
        pass

    return Tag


class GhostDict:
    """A dictionary about which nothing is known (the state of a dict filled by a cut loop)."""

    def __init__(self, name="d"):
        self.name = name
        self.stores = []

    def __setitem__(self, k, v):
        self.stores.append((k, v))

    def items(self):
        return GhostItems(self)

    def keys(self):
        return GhostItems(self)

    def values(self):
        return GhostItems(self)

    def __contains__(self, k):
        return bool(ctx().fresh_bool("in_" + self.name))

    def __len__(self):
        raise Unsupported("len() of a ghost dict")

    def __deepcopy__(self, memo):
        return self


class GhostItems:
    def __init__(self, d):
        self.d = d


def sorted_(it, *a, **k):
    if isinstance(it, GhostItems):
        return it           # sorting ints/offsets of a ghost collection raises nothing
    return sorted(it, *a, **k)


class _ODMeta(type):
    def __call__(cls, *a, **k):
        if a and isinstance(a[0], GhostItems):
            return a[0].d
        return collections.OrderedDict(*a, **k)

    def __instancecheck__(cls, obj):
        return isinstance(obj, (collections.OrderedDict, GhostDict))


class OrderedDict_(metaclass=_ODMeta):
    pass


# -- zlib -----------------------------------------------------------------------------------

import zlib as _real_zlib


class ZlibModel:
    """zlib for readers: decompress of symbolic input returns bytes of ARBITRARY length and
    content, or raises zlib.error - the assumed contract of the external library."""

    error = _real_zlib.error

    def __init__(self):
        self.n = 0

    def decompress(self, data, *a, **k):
        if isinstance(data, (bytes, bytearray)):
            return _real_zlib.decompress(data, *a, **k)
        c = ctx()
        if bool(c.fresh_bool("zlib_fails")):
            raise _real_zlib.error("Error -3 while decompressing data")
        self.n += 1
        at = Atom("inflated%d" % self.n)
        c.assume_term(at.n.t >= 0)
        return at.blob()

    def compress(self, data, *a, **k):
        if isinstance(data, (bytes, bytearray)):
            return _real_zlib.compress(data, *a, **k)
        c = ctx()
        self.n += 1
        at = Atom("deflated%d" % self.n)
        c.assume_term(at.n.t >= 0)
        return at.blob()

    def __getattr__(self, name):
        return getattr(_real_zlib, name)


# -- finite maps of unknown size over the reals -------------------------------------------------


class SymMapping:
    """A finite map Real -> Real of UNKNOWN size: domain predicate dom(k), value function
    val(k).  What code can observe of it (truthiness, membership, lookup, min/max of the keys,
    max/min of the keys below/above a value) is answered from the defining properties.

    Universally quantified facts about the keys ("no key lies strictly between a and b",
    "r is the greatest key below v") are kept as functions and INSTANTIATED on every point
    of interest (ghost inputs, looked-up values, results of min/max) - ground consequences
    of true facts only, so the encoding stays quantifier-free and sound."""

    def __init__(self, name="M"):
        R, B = z3.RealSort(), z3.BoolSort()
        self.dom = z3.Function(name + ".dom", R, B)
        self.val = z3.Function(name + ".val", R, R)
        self.nonempty = z3.Bool(name + ".nonempty")
        self.name = name
        self.points = []
        self.facts = []

    # -- instantiation -----------------------------------------------------------
    def add_point(self, x):
        t = sym._lift(x).real()
        if any(z3.eq(t, p) for p in self.points):
            return
        self.points.append(t)
        c = ctx()
        for f in self.facts:
            c.assume_term(f(t))

    def add_fact(self, f):
        """f: z3 real term k -> z3 Bool, true for EVERY real k"""
        self.facts.append(f)
        c = ctx()
        for p in self.points:
            c.assume_term(f(p))

    def keys(self):
        return SymKeys(self)

    def __getitem__(self, k):
        k = sym._lift(k)
        self.add_point(k)
        if not bool(SymBool(self.dom(k.real()))):
            raise KeyError(k)
        return SymNum(self.val(k.real()))

    def __contains__(self, k):
        k = sym._lift(k)
        self.add_point(k)
        return bool(SymBool(self.dom(k.real())))

    def __bool__(self):
        return bool(SymKeys(self))

    def __deepcopy__(self, memo):
        return self


class SymKeys:
    def __init__(self, m):
        self.m = m

    def __bool__(self):
        c = ctx()
        m = self.m
        if bool(SymBool(m.nonempty)):
            w = c.fresh_real("key")
            c.assume_term(m.dom(w.t))
            m.add_point(w)
            return True
        m.add_fact(lambda k: z3.Not(m.dom(k)))
        return False

    def __contains__(self, v):
        return v in self.m

    def _extreme(self, want_max, cond=None):
        """max (or min) of {k in keys : cond(k)}; ValueError if that set is empty."""
        c = ctx()
        m = self.m

        def ck(k):
            return z3.BoolVal(True) if cond is None else sym.lift_bool(cond(SymNum(k))).t

        some = c.fresh_bool("some")
        if not bool(some):
            m.add_fact(lambda k: z3.Not(z3.And(m.dom(k), ck(k))))
            c.assume(True)
            if c._check() == z3.unsat:
                raise sym.PathInfeasible()
            raise ValueError("%s() arg is an empty sequence" % ("max" if want_max else "min"))
        r = c.fresh_real("ext")
        c.assume_term(z3.And(m.dom(r.t), ck(r.t)))
        m.add_fact(lambda k: z3.Implies(z3.And(m.dom(k), ck(k)), (k <= r.t) if want_max else (k >= r.t)))
        m.add_point(r)
        if c._check() == z3.unsat:
            raise sym.PathInfeasible()
        return r

    def __reduce_gen__(self, fname, elt, cond):
        probe = SymNum(z3.Real("k!probe"))
        e = elt(probe)
        if not (isinstance(e, SymNum) and z3.eq(e.t, probe.t)):
            raise Unsupported("reduction over map keys with a non-identity element")
        if fname == "max":
            return self._extreme(True, cond)
        if fname == "min":
            return self._extreme(False, cond)
        raise Unsupported("reduction %s over map keys" % fname)


def min_(*a, **k):
    if len(a) == 1 and isinstance(a[0], SymKeys) and not k:
        return a[0]._extreme(False)
    return min(*a, **k)


def max_(*a, **k):
    if len(a) == 1 and isinstance(a[0], SymKeys) and not k:
        return a[0]._extreme(True)
    return max(*a, **k)


# -- sets with symbolic membership over a concrete universe ---------------------------------------


class SymSet:
    """A subset of a concrete universe whose membership is symbolic (one Bool per element):
    `x in s` and iteration fork on the membership of the elements concerned."""

    def __init__(self, name, universe, S=None):
        self.universe = list(universe)
        self.name = name
        if S is not None and getattr(S, "concrete", False):
            self.member = {u: bool(S.bool("%s[%s]" % (name, u))) for u in self.universe}
        else:
            self.member = {u: (S.bool("%s[%s]" % (name, u)) if S is not None else ctx().fresh_bool(name)) for u in self.universe}

    def __contains__(self, x):
        m = self.member.get(x)
        if m is None:
            return False
        return bool(m)

    def __iter__(self):
        for u in self.universe:
            if bool(self.member[u]):
                yield u

    def __len__(self):
        return sum(1 for _ in self)

    def __bool__(self):
        return any(True for _ in self)

    def concrete_members(self):
        return [u for u in self.universe if bool(self.member[u])]

    def update(self, *others):
        """set.update with concrete elements: they are members from now on"""
        from .sym import SymBool
        import z3
        for other in others:
            for x in other:
                if x not in self.member:
                    self.universe.append(x)
                self.member[x] = SymBool(z3.BoolVal(True)) if not isinstance(self.member.get(x, None), bool) else True

    def add(self, x):
        self.update([x])

    def intersection(self, *others):
        """set.intersection: decided element by element on this path (a plain set)"""
        out = None
        for other in others:
            cur = {x for x in other if x in self}
            out = cur if out is None else (out & cur)
        return set(self) if out is None else out

    def issuperset(self, other):
        return all(x in self for x in other)

    def __deepcopy__(self, memo):
        return self
