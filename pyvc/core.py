"""Contracts, obligations, verdicts.

A Contract names a real function in /repo (module + qualname), says how to build
symbolic arguments, and carries `requires`, `raises`, `ensures` as ordinary Python
predicates.  verify() explores every path of the real function on those arguments
and discharges, per clause, `path condition => clause` with z3 (cvc5/z3-4.8 as
second opinion on unknowns).  Counter-models are replayed natively.
"""
from __future__ import annotations

import copy
import os
import subprocess
import tempfile
import time
import traceback
from fractions import Fraction
from types import SimpleNamespace

import z3

from . import loader, sym
from .explore import Budget, Path, Stats, explore, model_value, _looks_like_proxy_error
from .sym import PathInfeasible, SymBool, SymComplex, SymNum, Unsupported

REGISTRY: dict = {}


def prop(name, fn):
    return Clause(name, "property", fn)


def internal(name, fn):
    return Clause(name, "internal", fn)


class Clause:
    def __init__(self, name, kind, fn):
        self.name, self.kind, self.fn = name, kind, fn


class Contract:
    """Subclass and register with @contract.  Class attributes:

    module, qualname : the real function
    props            : property ids this contract serves
    variants         : list of variant keys (default [None]); each is verified separately
    args(S, variant) : -> dict of keyword arguments for the function (built from S.*)
    requires(a)      : precondition over the argument namespace (default True)
    raises           : {ExcType: predicate(a) or None}; with raises_iff the predicate is
                       also required to be false on every normal return
    only_raises      : True -> any other exception type escaping is a refuted obligation
    ensures          : [prop(name, lambda a, old, r: ...), internal(...)]
    rebind           : {name: model} for loader.shadow
    cuts             : {qualname: {ordinal: LoopSpec}} loops cut by invariant
    stubs            : {name: contract class}  callees replaced by their contract
    allow_format     : True when str()/format() of symbolic numbers may reach the result
    """

    module = None
    qualname = None
    props = ()
    variants = (None,)
    raises = {}
    raises_iff = True
    only_raises = True
    ensures = ()
    rebind = None
    cuts = None
    stubs = None
    allow_format = False
    timeout_ms = 10000
    max_paths = 20000
    concretize_limit = 64
    assumptions = ()
    level = "P"
    unwrap = True
    expect_exceptional_only = False
    shadow_mode = "module"     # "function": only the target (+ `also`) is re-compiled, see loader.shadow_functions
    also = ()

    def args(self, S, variant):
        raise NotImplementedError

    def requires(self, a):
        return True

    def call(self, f, a):
        # argument names starting with "_" are ghost values for the clauses, not parameters
        return f(**{k: v for k, v in a.__dict__.items() if not k.startswith("_") and k != "old"})

    # names -------------------------------------------------------------------
    @classmethod
    def cname(cls):
        if cls.module is None:
            return "lemma." + cls.__name__
        return "%s.%s" % (cls.module.replace("fontTools.", ""), cls.qualname)


def contract(cls):
    inst = cls()
    REGISTRY[cls.__name__] = inst
    return cls


# --------------------------------------------------------------------------
# symbol factories


class SymFactory:
    """Creates named input symbols for the current path."""

    concrete = False

    def __init__(self, ctx):
        self.ctx = ctx

    def __deepcopy__(self, memo):
        return self      # contract objects that keep a reference to the factory are snapshotted with `old`

    def _reg(self, name, t):
        self.ctx.symbols[name] = t
        return t

    def real(self, name):
        return SymNum(self._reg(name, z3.Real(name)))

    def int(self, name, lo=None, hi=None):
        v = SymNum(self._reg(name, z3.Int(name)))
        if lo is not None:
            self.ctx.assume_term(v.t >= lo)
        if hi is not None:
            self.ctx.assume_term(v.t <= hi)
        return v

    def bool(self, name):
        return SymBool(self._reg(name, z3.Bool(name)))

    def complex(self, name):
        return SymComplex(self.real(name + ".re"), self.real(name + ".im"))

    def bitword(self, name, width):
        """(word, bits): an unsigned `width`-bit word given bit by bit (LSB first), so that
        masks, shifts and ors with constants stay Boolean instead of div/mod arithmetic."""
        from .sym import _from_bits
        bits = [self.bool("%s.%d" % (name, i)) for i in range(width)]
        return _from_bits([b.t for b in bits]), bits

    def pin(self, v):
        """A CONCRETE int as a proxy (z3 numeral): divisions by it stay exact rationals instead
        of being rounded by CPython float arithmetic before a proxy is met; range(), ==,
        indexing see the concrete value."""
        return SymNum(z3.IntVal(int(v)))

    def byte(self, name):
        return self.int(name, 0, 255)

    def bytes(self, name, n):
        from .models import SymBytes

        return SymBytes([self.byte("%s[%d]" % (name, i)) for i in range(n)])


class ConcreteFactory:
    """Same interface, values taken from a counter-model (or a sample dict)."""

    concrete = True

    def __init__(self, values, default_real=Fraction(0), as_float=False):
        self.values = values
        self.as_float = as_float

    def real(self, name):
        v = self.values.get(name, 0)
        v = Fraction(v) if not isinstance(v, Fraction) else v
        return float(v) if self.as_float else v

    def int(self, name, lo=None, hi=None):
        return int(self.values.get(name, lo if lo is not None else 0))

    def bool(self, name):
        return bool(self.values.get(name, False))

    def bitword(self, name, width):
        bits = [self.bool("%s.%d" % (name, i)) for i in range(width)]
        return sum((1 << i) for i, b in enumerate(bits) if b), bits

    def pin(self, v):
        return int(v)

    def complex(self, name):
        re, im = self.real(name + ".re"), self.real(name + ".im")
        if self.as_float:
            return complex(re, im)
        return FracComplex(re, im)

    def byte(self, name):
        return self.int(name, 0, 255)

    def bytes(self, name, n):
        return bytes(self.byte("%s[%d]" % (name, i)) for i in range(n))


class FracComplex:
    """Exact complex numbers over Fractions for native replay (A-REAL oracle)."""

    __slots__ = ("real", "imag")

    def __init__(self, re, im=0):
        self.real = Fraction(re) if not isinstance(re, float) else Fraction(sym.lift_float(re))
        self.imag = Fraction(im) if not isinstance(im, float) else Fraction(sym.lift_float(im))

    @staticmethod
    def lift(x):
        if isinstance(x, FracComplex):
            return x
        if isinstance(x, complex):
            return FracComplex(x.real, x.imag)
        if isinstance(x, (int, Fraction, float)):
            return FracComplex(x, 0)
        return NotImplemented

    def conjugate(self):
        return FracComplex(self.real, -self.imag)

    def __add__(self, o):
        o = FracComplex.lift(o)
        return FracComplex(self.real + o.real, self.imag + o.imag)

    __radd__ = __add__

    def __sub__(self, o):
        o = FracComplex.lift(o)
        return FracComplex(self.real - o.real, self.imag - o.imag)

    def __rsub__(self, o):
        o = FracComplex.lift(o)
        return FracComplex(o.real - self.real, o.imag - self.imag)

    def __mul__(self, o):
        o = FracComplex.lift(o)
        return FracComplex(self.real * o.real - self.imag * o.imag, self.real * o.imag + self.imag * o.real)

    __rmul__ = __mul__

    def __truediv__(self, o):
        o = FracComplex.lift(o)
        den = o.real * o.real + o.imag * o.imag
        n = self * o.conjugate()
        return FracComplex(n.real / den, n.imag / den)

    def __rtruediv__(self, o):
        return FracComplex.lift(o) / self

    def __neg__(self):
        return FracComplex(-self.real, -self.imag)

    def __abs__(self):
        import math

        return math.sqrt(float(self.real * self.real + self.imag * self.imag))

    def __eq__(self, o):
        o = FracComplex.lift(o)
        if o is NotImplemented:
            return False
        return self.real == o.real and self.imag == o.imag

    def __hash__(self):
        return hash((self.real, self.imag))

    def __repr__(self):
        return "FracComplex(%s, %s)" % (self.real, self.imag)


# --------------------------------------------------------------------------
# results


class Obligation:
    def __init__(self, name, kind):
        self.name = name            # contract/variant/clause
        self.kind = kind            # 'property' | 'internal' | 'guard'
        self.status = "proved"      # proved | refuted | undecided
        self.paths = 0
        self.solver_s = 0.0
        self.backend = "z3-" + z3.get_version_string()
        self.reason = None
        self.model = None           # {symbol: value} of the first counter-model
        self.replay = None          # dict describing native replay
        self.logic = None

    def to_json(self):
        d = {"obligation": self.name, "kind": self.kind, "result": self.status, "paths": self.paths,
             "solver_s": round(self.solver_s, 4), "backend": self.backend}
        if self.reason:
            d["reason"] = self.reason
        if self.model is not None:
            d["model"] = {k: _jsonable(v) for k, v in self.model.items()}
        if self.replay is not None:
            d["replay"] = self.replay
        return d


def _jsonable(v):
    if isinstance(v, Fraction):
        return str(v)
    if isinstance(v, (int, bool, str, float)) or v is None:
        return v
    if isinstance(v, bytes):
        return v.hex()
    return repr(v)


def _merge(ob: Obligation, status, reason=None):
    order = {"proved": 0, "undecided": 1, "refuted": 2}
    if order[status] > order[ob.status]:
        ob.status = status
        ob.reason = reason


# --------------------------------------------------------------------------
# second-opinion solvers


def _second_opinion(constraints, timeout_s=30):
    """Ask /usr/bin/cvc5 and /usr/bin/z3 (4.8) about a conjunction; returns 'sat'|'unsat'|'unknown', backend."""
    s = z3.Solver()
    for c in constraints:
        s.add(c)
    smt = s.to_smt2()
    with tempfile.NamedTemporaryFile("w", suffix=".smt2", delete=False) as f:
        f.write(smt)
        fn = f.name
    try:
        for name, cmd in (("cvc5-1.0.3", ["/usr/bin/cvc5", "--tlimit=%d" % (timeout_s * 1000), fn]),
                          ("z3-4.8.12", ["/usr/bin/z3", "-T:%d" % timeout_s, fn])):
            try:
                out = subprocess.run(cmd, capture_output=True, text=True, timeout=timeout_s + 5).stdout.strip().splitlines()
            except Exception:
                continue
            if out and out[0] in ("sat", "unsat"):
                return out[0], name
        return "unknown", None
    finally:
        os.unlink(fn)


def solve(constraints, timeout_ms, stats, want_model=True, second=True):
    s = z3.Solver()
    s.set("timeout", timeout_ms)
    for c in constraints:
        s.add(c)
    t0 = time.time()
    r = s.check()
    dt = time.time() - t0
    stats.solver_s += dt
    stats.checks += 1
    backend = "z3-" + z3.get_version_string()
    if r == z3.unsat:
        return "unsat", None, backend, dt
    if r == z3.sat:
        return "sat", (s.model() if want_model else None), backend, dt
    if second:
        t0 = time.time()
        r2, b2 = _second_opinion(constraints)
        dt2 = time.time() - t0
        stats.solver_s += dt2
        if r2 == "unsat":
            return "unsat", None, b2, dt + dt2
        if r2 == "sat":
            return "sat", None, b2, dt + dt2
    return "unknown", None, backend, dt


# --------------------------------------------------------------------------
# verification of one contract variant


class _CallOutcome:
    __slots__ = ("a", "old", "kind", "value")

    def __init__(self, a, old, kind, value):
        self.a, self.old, self.kind, self.value = a, old, kind, value


def load_target(c: Contract):
    rebind = c.rebind() if callable(c.rebind) else dict(c.rebind or {})
    if c.shadow_mode == "real":
        # the normally imported function object itself (no rebinding, no rewriting)
        import importlib

        for extra in getattr(c, "imports", ()):
            importlib.import_module(extra)
        mod = importlib.import_module(c.module)
        f = loader.real(c.module, c.qualname)
        if c.unwrap:
            f = loader.unwrap(f)
        return mod, f
    if c.shadow_mode == "function":
        mod, fns = loader.shadow_functions(c.module, [c.qualname] + list(c.also), rebind, c.cuts)
        if c.stubs:
            from .stubs import make_stub

            for name, cc in c.stubs.items():
                mod.__dict__[name] = make_stub(cc)
        return mod, fns[c.qualname]
    mod = loader.shadow(c.module, rebind, c.cuts)
    if c.stubs:
        from .stubs import make_stub

        for name, cc in c.stubs.items():
            mod.__dict__[name] = make_stub(cc)
    orig = getattr(mod, "__pyvc_orig__", {})
    head = c.qualname.split(".")[0]
    if head in orig and callable(orig[head]) and getattr(orig[head], "__module__", None) == c.module:
        f = loader.resolve({head: orig[head]}, c.qualname)
    else:
        f = loader.resolve(mod, c.qualname)
    if c.unwrap:
        f = loader.unwrap(f)
    return mod, f


def _snapshot(a):
    """Pre-state for `old`: a deep copy where the objects allow it, else per-argument."""
    try:
        return copy.deepcopy(a)
    except Exception:
        out = {}
        for k, v in a.__dict__.items():
            try:
                out[k] = copy.deepcopy(v)
            except Exception:
                out[k] = v
        return SimpleNamespace(**out)


def _args_namespace(d):
    return d if isinstance(d, SimpleNamespace) else SimpleNamespace(**d)


def verify(c: Contract, variant=None, deadline_s=600):
    """-> (list[Obligation], info dict)"""
    t_start = time.time()
    stats = Stats()
    vname = c.cname() + ("" if variant is None else "[%s]" % (variant,))
    obs: dict = {}

    def ob(suffix, kind):
        n = vname + "/" + suffix
        if n not in obs:
            obs[n] = Obligation(n, kind)
        return obs[n]

    is_lemma = c.module is None
    if c.shadow_mode == "real" and not is_lemma:
        finfo = loader.function_info_real(c)
    else:
        finfo = {"lemma": True} if is_lemma else loader.function_info(c.module, getattr(c, "source_qualname", None) or c.qualname)
    info = {"contract": vname, "function": finfo, "paths": 0,
            "normal_paths": 0, "exceptional_paths": 0, "front_end": "N+cut" if c.cuts else ("N+rebind" if c.rebind else "N")}
    if info["function"] is None:
        o = ob("target", "guard")
        _merge(o, "undecided", "target function %s.%s not found in the working tree" % (c.module, c.qualname))
        return list(obs.values()), info
    try:
        mod, f = (None, None) if is_lemma else load_target(c)
        c.mod = mod
    except (Exception, Unsupported) as e:
        o = ob("target", "guard")
        _merge(o, "undecided", "cannot load target: %s: %s" % (type(e).__name__, str(e)[:200]))
        return list(obs.values()), info

    from . import loopcut as _lc

    _lc.ACTIVE.clear()
    for qn, loops in (c.cuts or {}).items():
        for k, spec in loops.items():
            _lc.ACTIVE[(qn, k)] = spec

    def thunk():
        from . import explore as _e

        cx = sym.ctx()
        S = SymFactory(cx)
        a = _args_namespace(c.args(S, variant))
        cx.assume(c.requires(a))
        old = _snapshot(a)
        try:
            r = c.call(f, a)
        except (PathInfeasible, Unsupported, Budget, _e.SideObligationFailed, _lc.PathEnd, _lc.LoopObligationFailed):
            raise
        except RecursionError:
            raise
        except BaseException as e:
            msg = str(e)
            if _looks_like_proxy_error(e, msg):
                raise Unsupported("%s: %s" % (type(e).__name__, msg[:200]))
            a.old = old
            return _CallOutcome(a, old, "exc", e)
        a.old = old          # predicates over the post-state can still reach the pre-state
        return _CallOutcome(a, old, "ret", r)

    deadline = t_start + deadline_s
    if hasattr(c, "setup"):
        c.setup()
    try:
        return _verify_rest(c, variant, thunk, stats, obs, ob, info, deadline, t_start)
    finally:
        if hasattr(c, "teardown"):
            c.teardown()


def _verify_rest(c, variant, thunk, stats, obs, ob, info, deadline, t_start):
    try:
        paths = explore(thunk, stats=stats, timeout_ms=c.timeout_ms, max_paths=c.max_paths,
                        concretize_limit=c.concretize_limit, deadline=deadline)
    except Budget as e:
        _merge(ob("supported", "guard"), "undecided", "budget: %s" % e)
        return list(obs.values()), info
    info["paths"] = len(paths)

    # guards ------------------------------------------------------------------
    sup = ob("supported", "guard")
    for p in paths:
        if p.kind == "unsupported":
            _merge(sup, "undecided", "out of reach: %s" % p.value)
        elif p.kind == "side":
            _merge(sup, "undecided", "encoding side condition not implied: %s" % p.value.what)
        elif p.kind == "exc":
            # exception raised outside the call (argument builder / requires): engine or contract bug
            _merge(sup, "undecided", "contract raised %s: %s" % (type(p.value).__name__, str(p.value)[:200]))
    sup.paths = len(paths)
    if sup.status != "proved":
        return list(obs.values()), info

    # loop invariants (cut loops) ---------------------------------------------------------
    for p in paths:
        for n in p.loop_obligations:
            o = ob(n, "property")
            o.paths += 1
        if p.kind == "loopfail":
            o = ob(p.value.name, "property")
            if o.status != "refuted":
                _merge(o, "refuted", p.value.what)
                r, model, backend, dt = solve(p.constraints, c.timeout_ms, stats)
                o.model = {n: model_value(model, t) for n, t in p.symbols.items()} if model is not None else None

    outcomes = [p for p in paths if p.kind == "ret"]
    normal = [p for p in outcomes if p.value.kind == "ret"]
    exceptional = [p for p in outcomes if p.value.kind == "exc"]
    info["normal_paths"], info["exceptional_paths"] = len(normal), len(exceptional)

    reach = ob("reach", "guard")
    reach.paths = len(outcomes)
    if not outcomes:
        _merge(reach, "undecided", "precondition unsatisfiable: no feasible path (vacuous)")
    elif not normal and not (c.expect_exceptional_only is True or
                             (isinstance(c.expect_exceptional_only, (tuple, set, list)) and variant in c.expect_exceptional_only)):
        _merge(reach, "undecided", "no normal return is reachable (vacuous postconditions)")

    # stringified results ------------------------------------------------------
    if not c.allow_format:
        for p in normal:
            if p.stringified:
                _merge(sup, "undecided", "a symbolic number was formatted to text on a normally returning path")

    def check_clause(o: Obligation, p: Path, fn, negate=False, label=""):
        """pc(p) => fn(...)  (or => not fn(...) when negate)."""
        out = p.value

        def cthunk():
            return fn()

        try:
            sub = explore(cthunk, base=p.constraints, stats=stats, timeout_ms=c.timeout_ms, max_paths=4000,
                          concretize_limit=c.concretize_limit, deadline=deadline)
        except Budget as e:
            _merge(o, "undecided", "budget in clause: %s" % e)
            return
        for sp in sub:
            o.paths += 1
            if sp.kind in ("unsupported", "side"):
                _merge(o, "undecided", "clause out of reach: %s" % (sp.value if sp.kind == "unsupported" else sp.value.what))
                continue
            if sp.kind == "exc":
                _merge(o, "undecided", "clause raised %s: %s" % (type(sp.value).__name__, str(sp.value)[:160]))
                continue
            v = sp.value
            if isinstance(v, SymBool):
                goal = v.t
            elif isinstance(v, SymNum):
                goal = v.t != 0
            else:
                goal = z3.BoolVal(bool(v))
            if negate:
                goal = z3.Not(goal)
            g = z3.simplify(goal)
            if z3.is_true(g):
                continue
            r, model, backend, dt = solve(sp.constraints + [z3.Not(goal)], c.timeout_ms, stats)
            o.solver_s += dt
            if backend != o.backend and r != "unknown":
                o.backend = o.backend + "+" + backend if backend not in o.backend else o.backend
            if r == "unsat":
                continue
            if r == "sat":
                if o.status != "refuted":
                    _merge(o, "refuted", label or "counter-model")
                    if model is not None:
                        o.model = {n: model_value(model, t) for n, t in p.symbols.items()}
                    else:
                        o.model = None
                    o.extra_path = p
            else:
                _merge(o, "undecided", "solver unknown/timeout")

    # postconditions -------------------------------------------------------------
    for cl in c.ensures:
        o = ob("post:" + cl.name, cl.kind)
        o.clause = cl
        for p in normal:
            out = p.value
            check_clause(o, p, lambda out=out, cl=cl: cl.fn(out.a, out.old, out.value))

    # exceptions -------------------------------------------------------------------
    declared = dict(c.raises or {})
    if c.only_raises:
        o = ob("only-raises", "property")
        o.paths = len(exceptional)
        for p in exceptional:
            e = p.value.value
            if not any(isinstance(e, t) for t in declared):
                if o.status != "refuted":
                    # exploration treats a branch the solver could not decide as feasible: the path
                    # condition is decided here (second-opinion solvers included) before an escaping
                    # exception counts as a violation
                    r, model, backend, dt = solve(p.constraints, c.timeout_ms, stats)
                    o.solver_s += dt
                    if r == "unsat":
                        continue
                    if r != "sat":
                        _merge(o, "undecided", "feasibility of the path raising %s is unknown to the solvers" % type(e).__name__)
                        continue
                    _merge(o, "refuted", "undeclared %s escapes: %s" % (type(e).__name__, str(e)[:120]))
                    o.model = {n: model_value(model, t) for n, t in p.symbols.items()} if model is not None else None
                    o.extra_path = p
    for et, pred in declared.items():
        if pred is None:
            continue
        o = ob("raises:" + et.__name__, "property")
        for p in exceptional:
            if isinstance(p.value.value, et):
                out = p.value
                check_clause(o, p, lambda out=out, pred=pred: pred(out.a), label="%s raised outside its declared condition" % et.__name__)
        if c.raises_iff:
            for p in normal:
                out = p.value
                check_clause(o, p, lambda out=out, pred=pred: pred(out.a), negate=True,
                             label="normal return although %s was required" % et.__name__)

    for o in obs.values():
        o.solver_s = round(o.solver_s, 4)
    info["solver_s"] = round(stats.solver_s, 3)
    info["solver_checks"] = stats.checks
    info["solver_unknown"] = stats.unknown
    info["wall_s"] = round(time.time() - t_start, 3)
    return list(obs.values()), info


# --------------------------------------------------------------------------
# native replay of a counter-model


def _safe_repr(v):
    try:
        return repr(v)[:300]
    except Exception:
        try:
            return repr(getattr(v, "__dict__", None) or [x for x in v])[:300]
        except Exception:
            return "<%s>" % type(v).__name__


def replay(c: Contract, variant, o: Obligation, as_float=False):
    """Run the REAL function (normal import from /repo/Lib) on the model's values and
    evaluate the failed clause in CPython.  Returns dict(reproduced=bool, ...)."""
    if o.model is None:
        return {"reproduced": False, "why": "no model available (second-opinion solver)"}
    try:
        f = None
        if c.module is not None:
            import importlib

            c.mod = importlib.import_module(c.module)
            f = loader.real(c.module, c.qualname)
            if c.unwrap:
                f = loader.unwrap(f)
        S = ConcreteFactory(o.model, as_float=as_float)
        patched = {}
        if hasattr(c, "replay_recorders") and c.module is not None:
            # pure recorders (delegate to the real callee) installed in the real module for
            # the duration of this replay, so that clauses about calls can be evaluated
            for name, rec in c.replay_recorders().items():
                patched[name] = c.mod.__dict__[name]
                rec.real = patched[name]
                c.mod.__dict__[name] = rec
        try:
            return _replay_inner(c, variant, o, S, f)
        finally:
            for name, orig_f in patched.items():
                c.mod.__dict__[name] = orig_f
    except Exception as e:
        return {"reproduced": False, "why": "replay crashed: %s: %s" % (type(e).__name__, str(e)[:200]),
                "trace": traceback.format_exc()[-600:]}


def _replay_inner(c, variant, o, S, f):
    try:
        a = _args_namespace(c.args(S, variant))
        pre = c.requires(a)
        if not pre:
            return {"reproduced": False, "why": "model violates the precondition natively"}
        old = _snapshot(a)
        shown = {k: _safe_repr(v) for k, v in old.__dict__.items()}
        try:
            r = c.call(f, a)
            kind = "ret"
        except Exception as e:
            r, kind = e, "exc"
        a.old = old
        suffix = o.name.split("/")[-1]
        res = {"inputs": shown, "outcome": ("returned " + _safe_repr(r)) if kind == "ret" else "raised %s: %s" % (type(r).__name__, str(r)[:200])}
        if suffix.startswith("post:"):
            cl = o.clause
            if kind != "ret":
                res.update(reproduced=False, why="native run raised instead of returning")
            else:
                ok = bool(cl.fn(a, old, r))
                res.update(reproduced=not ok, required=cl.name)
        elif suffix == "only-raises":
            bad = kind == "exc" and not any(isinstance(r, t) for t in (c.raises or {}))
            res.update(reproduced=bad, required="only %s may escape" % [t.__name__ for t in (c.raises or {})])
        elif suffix.startswith("raises:"):
            en = suffix[len("raises:"):]
            et = [t for t in c.raises if t.__name__ == en][0]
            cond = bool(c.raises[et](a))
            if kind == "exc" and isinstance(r, et):
                res.update(reproduced=not cond, required="%s only under its declared condition" % en)
            elif kind == "ret":
                res.update(reproduced=cond, required="%s required by the contract" % en)
            else:
                res.update(reproduced=False, why="different exception natively")
        else:
            res.update(reproduced=False, why="not a replayable obligation")
        return res
    except Exception as e:
        return {"reproduced": False, "why": "replay crashed: %s: %s" % (type(e).__name__, str(e)[:200]),
                "trace": traceback.format_exc()[-600:]}
