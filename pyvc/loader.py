"""Loading the code under verification from /repo's current working tree.

`real(module, qualname)`   -> the function object of the normally imported module
                              (must come from $VERIF_REPO/Lib), used for native replay.
`shadow(module, rebind, cuts)` -> a private re-execution of the *same source file*
                              in a fresh module namespace in which the names listed in
                              `rebind` are bound to PYVC models (struct, len, int, ...)
                              and in which loops that carry a sidecar invariant have
                              been cut by pyvc.loopcut.  Nothing else differs from the
                              text in /repo: the file is read, parsed and compiled on
                              every run.
"""
from __future__ import annotations

import ast
import hashlib
import importlib
import os
import sys
import types

REPO = os.environ.get("VERIF_REPO", "/repo")
LIB = os.path.join(REPO, "Lib")


def ensure_repo_on_path():
    if sys.path[0] != LIB:
        if LIB in sys.path:
            sys.path.remove(LIB)
        sys.path.insert(0, LIB)
    import fontTools

    f = os.path.realpath(fontTools.__file__)
    if not f.startswith(os.path.realpath(LIB) + os.sep):
        raise RuntimeError("fontTools imported from %s, not from %s" % (f, LIB))


def module_path(modname: str) -> str:
    base = os.path.join(LIB, *modname.split("."))
    if os.path.isdir(base):
        return os.path.join(base, "__init__.py")
    return base + ".py"


def source_of(modname: str) -> str:
    with open(module_path(modname), encoding="utf-8") as f:
        return f.read()


def _decorated(qualname):
    """'merge@MutatorMerger.merger(otBase.ValueRecord)' -> ('merge', 'MutatorMerger.merger(otBase.ValueRecord)'):
    one of several same-named module-level functions, told apart by its decorator (fontTools.varLib.merger)"""
    name, _, deco = qualname.partition("@")
    return name, deco


def resolve(ns, qualname: str):
    if "@" in qualname:
        # registered handler: <Class>.merger(<key>) stores the function in <Class>.mergers[<key>]
        _, deco = _decorated(qualname)
        head, _, arg = deco.partition("(")
        cls = resolve(ns, head.rsplit(".", 1)[0])
        scope = ns if isinstance(ns, dict) else vars(ns)
        key = eval(deco[len(head) + 1:-1], dict(scope))
        return cls.mergers[key[0] if isinstance(key, tuple) else key][None]
    obj = ns
    for part in qualname.split("."):
        obj = obj[part] if isinstance(obj, dict) else getattr(obj, part)
    return obj


def unwrap(f):
    """lru_cache / staticmethod / classmethod wrappers -> the plain function."""
    while True:
        if isinstance(f, (staticmethod, classmethod)):
            f = f.__func__
        elif hasattr(f, "__wrapped__"):
            f = f.__wrapped__
        else:
            return f


def real(modname: str, qualname: str):
    ensure_repo_on_path()
    mod = importlib.import_module(modname)
    f = os.path.realpath(mod.__file__)
    if not f.startswith(os.path.realpath(LIB) + os.sep):
        raise RuntimeError("%s imported from %s" % (modname, f))
    return resolve(mod, qualname)


def find_def(tree: ast.Module, qualname: str):
    if "@" in qualname:
        name, deco = _decorated(qualname)
        want = ast.dump(ast.parse(deco, mode="eval").body)
        for child in tree.body:
            if isinstance(child, ast.FunctionDef) and child.name == name and any(ast.dump(d) == want for d in child.decorator_list):
                return child
        return None
    node = tree
    for part in qualname.split("."):
        for child in node.body:
            if isinstance(child, (ast.FunctionDef, ast.ClassDef, ast.AsyncFunctionDef)) and child.name == part:
                node = child
                break
        else:
            return None
    return node


def function_info(modname: str, qualname: str):
    """file:line and sha256 of the function's source segment, for evidence/replay."""
    src = source_of(modname)
    tree = ast.parse(src)
    node = find_def(tree, qualname)
    if node is None:
        return None
    seg = ast.get_source_segment(src, node) or ""
    rel = os.path.relpath(module_path(modname), REPO)
    return {"file": "%s:%d" % (rel, node.lineno), "sha256": hashlib.sha256(seg.encode()).hexdigest()[:16],
            "lines": (node.end_lineno or node.lineno) - node.lineno + 1}


_SHADOW_CACHE: dict = {}


def shadow(modname: str, rebind: dict | None = None, cuts: dict | None = None, cache_key=None):
    """Execute the module's source from /repo in a fresh namespace.

    rebind: {name: object} bound in the module namespace *after* the module body
            ran (so `import struct` in the file does not undo it); functions look
            globals up at call time, so they see the models.
    cuts:   {qualname: {loop_ordinal: LoopSpec}} for pyvc.loopcut.
    """
    ensure_repo_on_path()
    try:
        importlib.import_module(modname)   # real import first: resolves import cycles
    except Exception:
        pass
    key = (modname, cache_key)
    if cache_key is not None and key in _SHADOW_CACHE:
        return _SHADOW_CACHE[key]
    path = module_path(modname)
    src = source_of(modname)
    tree = ast.parse(src, filename=path)
    dropped = []
    if cuts:
        from . import loopcut

        tree = loopcut.transform(tree, cuts, dropped)
        ast.fix_missing_locations(tree)
    if rebind and rebind.get("__genexpr__"):
        tree = _GenexprRewrite().visit(tree)
        ast.fix_missing_locations(tree)
        dropped.append("every `min/max/sum/any/all(ELT for X in IT if COND)` is routed through __pyvc__.reduce_gen (identical on ordinary iterables)")
    if rebind and rebind.get("__fmt__"):
        tree = _FmtRewrite().visit(tree)
        ast.fix_missing_locations(tree)
        dropped.append("every `\"literal\" % args` is routed through __pyvc__.fmt (identical to % on concrete args)")
    if rebind and rebind.get("__join__"):
        tree = _JoinRewrite().visit(tree)
        ast.fix_missing_locations(tree)
        dropped.append("every `b\"literal\".join(X)` is routed through __pyvc__.bjoin (the same join on real bytes)")
    mod = types.ModuleType(modname)
    mod.__file__ = path
    if os.path.basename(path) == "__init__.py":
        mod.__package__ = modname
        mod.__path__ = [os.path.dirname(path)]
    else:
        mod.__package__ = modname.rpartition(".")[0]
    if rebind:
        # builtins shadows must exist while the body runs too (class bodies, defaults)
        pre = {k: v for k, v in rebind.items() if k in _BUILTIN_NAMES}
        mod.__dict__.update(pre)
    mod.__dict__["__pyvc__"] = _runtime_namespace()
    # The body is executed statement by statement so that the models are (re)bound right
    # after the module's own import statements: default arguments captured at `def` time
    # (e.g. `def encodeInt(value, bytechr=bytechr, pack=struct.pack)`) then see the models.
    # the module's own definitions that a rebind replaces (a function stubbed by its contract
    # while it is itself the target) stay reachable in __pyvc_orig__: captured right after the
    # defining statement, before a later import / if / try statement re-applies the rebinding
    orig = {}
    for stmt in tree.body:
        code = compile(ast.Module(body=[stmt], type_ignores=[]), path, "exec")
        exec(code, mod.__dict__)
        if rebind and isinstance(stmt, (ast.FunctionDef, ast.ClassDef)) and stmt.name in rebind:
            orig[stmt.name] = mod.__dict__[stmt.name]
        if rebind and isinstance(stmt, (ast.Import, ast.ImportFrom, ast.Try, ast.If)):
            mod.__dict__.update(rebind)
    mod.__pyvc_orig__ = {k: mod.__dict__[k] for k in (rebind or {}) if k in mod.__dict__}
    mod.__pyvc_orig__.update(orig)
    if rebind:
        mod.__dict__.update(rebind)
    mod.__pyvc_dropped__ = dropped
    if cache_key is not None:
        _SHADOW_CACHE[key] = mod
    return mod


class _GenexprRewrite(ast.NodeTransformer):
    """`F(ELT for X in IT [if COND])` for F in min/max/sum/any/all with a single generator and
    a plain-name target  ->  `__pyvc__.reduce_gen("F", IT, lambda X: ELT, lambda X: COND)`.
    On an ordinary iterable reduce_gen evaluates exactly the original expression; on a
    symbolic collection model it applies the reduction's defining property."""

    FUNCS = {"min", "max", "sum", "any", "all"}

    def visit_Call(self, node):
        self.generic_visit(node)
        if (isinstance(node.func, ast.Name) and node.func.id in self.FUNCS and len(node.args) == 1 and not node.keywords
                and isinstance(node.args[0], ast.GeneratorExp) and len(node.args[0].generators) == 1):
            g = node.args[0].generators[0]
            if isinstance(g.target, ast.Name) and not g.is_async and len(g.ifs) <= 1:
                def lam(body):
                    return ast.Lambda(args=ast.arguments(posonlyargs=[], args=[ast.arg(arg=g.target.id)], kwonlyargs=[],
                                                         kw_defaults=[], defaults=[]), body=body)
                cond = g.ifs[0] if g.ifs else ast.Constant(value=True)
                return ast.copy_location(ast.Call(
                    func=ast.Attribute(value=ast.Name(id="__pyvc__", ctx=ast.Load()), attr="reduce_gen", ctx=ast.Load()),
                    args=[ast.Constant(value=node.func.id), g.iter, lam(node.args[0].elt), lam(cond)], keywords=[]), node)
        return node


class _JoinRewrite(ast.NodeTransformer):
    """`b"sep".join(X)` -> `__pyvc__.bjoin(b"sep", X)`: a method of a bytes literal cannot be
    rebound, and the real join refuses byte-string models."""

    def visit_Call(self, node):
        self.generic_visit(node)
        f = node.func
        if (isinstance(f, ast.Attribute) and f.attr == "join" and isinstance(f.value, ast.Constant) and isinstance(f.value.value, bytes)
                and len(node.args) == 1 and not node.keywords):
            return ast.copy_location(ast.Call(
                func=ast.Attribute(value=ast.Name(id="__pyvc__", ctx=ast.Load()), attr="bjoin", ctx=ast.Load()),
                args=[f.value, node.args[0]], keywords=[]), node)
        return node


class _FmtRewrite(ast.NodeTransformer):
    """`"literal" % X`  ->  `__pyvc__.fmt("literal", X)`: on concrete X this IS `%`; on
    symbolic X it builds a SymFormat (so that struct formats such as ">%dL" % n and error
    messages never force a symbolic number to text)."""

    def visit_BinOp(self, node):
        self.generic_visit(node)
        if isinstance(node.op, ast.Mod) and isinstance(node.left, ast.Constant) and isinstance(node.left.value, str):
            return ast.copy_location(ast.Call(
                func=ast.Attribute(value=ast.Name(id="__pyvc__", ctx=ast.Load()), attr="fmt", ctx=ast.Load()),
                args=[node.left, node.right], keywords=[]), node)
        return node


def shadow_functions(modname: str, qualnames, rebind: dict | None = None, cuts: dict | None = None):
    """Lighter shadow for big modules: the namespace is a copy of the REAL module's
    namespace (so every class and helper is the real object), the names in `rebind` are
    bound to models, and only the listed functions/methods are re-compiled from the
    source text in /repo so that they look their globals up in this namespace.
    Returns (namespace-module, {qualname: function})."""
    ensure_repo_on_path()
    realmod = importlib.import_module(modname)
    path = module_path(modname)
    src = source_of(modname)
    tree = ast.parse(src, filename=path)
    dropped = []
    if cuts:
        from . import loopcut

        tree = loopcut.transform(tree, cuts, dropped)
        ast.fix_missing_locations(tree)
    mod = types.ModuleType(modname)
    mod.__dict__.update(realmod.__dict__)
    mod.__dict__["__pyvc__"] = _runtime_namespace()
    if rebind:
        mod.__dict__.update(rebind)
    out = {}
    for qn in qualnames:
        node = find_def(tree, qn)
        if node is None:
            raise LookupError("%s.%s not found" % (modname, qn))
        node = _strip_decorators(node)
        scratch = dict()
        code = compile(ast.Module(body=[node], type_ignores=[]), path, "exec")
        # exec with globals=mod namespace, locals=scratch: the def lands in scratch but its
        # __globals__ is the shadow namespace
        exec(code, mod.__dict__, scratch)
        fn = scratch[node.name]
        out[qn] = fn
        if "." not in qn:
            mod.__dict__[qn] = fn
    mod.__pyvc_dropped__ = dropped
    return mod, out


_ALLOWED_DECORATORS = ("staticmethod", "classmethod", "lru_cache", "cython", "functools", "property")


def _strip_decorators(node):
    """Decorators on the allow-list are dropped (documented in DESIGN 3.1): cython.* are
    no-ops in pure-Python mode, static/classmethod only change binding, lru_cache is
    semantically transparent for pure functions."""
    import copy

    node = copy.deepcopy(node)
    keep = []
    for d in node.decorator_list:
        txt = ast.unparse(d)
        if not txt.startswith(_ALLOWED_DECORATORS):
            keep.append(d)
    node.decorator_list = keep
    return node


_BUILTIN_NAMES = set(dir(__builtins__)) if not isinstance(__builtins__, dict) else set(__builtins__)


def _runtime_namespace():
    from . import loopcut

    return loopcut.RUNTIME


def function_info_real(c):
    """file:line and sha of a function taken from the live object (functions attached to
    classes of another module by decorators, e.g. fontTools.subset's _add_method)."""
    import importlib
    import inspect

    ensure_repo_on_path()
    try:
        for extra in getattr(c, "imports", ()):
            importlib.import_module(extra)
        f = unwrap(real(c.module, c.qualname))
        src, line = inspect.getsourcelines(f)
        path = os.path.realpath(inspect.getsourcefile(f))
        if not path.startswith(os.path.realpath(LIB) + os.sep):
            return None
        return {"file": "%s:%d" % (os.path.relpath(path, REPO), line), "sha256": hashlib.sha256("".join(src).encode()).hexdigest()[:16],
                "lines": len(src)}
    except Exception:
        return None
