"""Vocabulary for contract predicates and spec functions.

Every helper works on symbolic proxies (building one z3 term, no path fork) and
on concrete Python values (native replay, run-time monitoring) alike, so that a
contract clause is one text with three uses.
"""
from __future__ import annotations

from fractions import Fraction

import z3

from . import sym
from .sym import SymBool, SymComplex, SymNum, _lift


def _is_sym(x):
    return isinstance(x, (SymBool, SymNum, SymComplex))


def And(*xs):
    return sym.And(*xs)


def Or(*xs):
    return sym.Or(*xs)


def Not(x):
    return sym.Not(x)


def Implies(a, b):
    return sym.Or(sym.Not(a), b)


def Ite(c, a, b):
    if isinstance(c, SymBool):
        s = z3.simplify(c.t)
        if z3.is_true(s):
            return a
        if z3.is_false(s):
            return b
        if isinstance(a, (SymComplex, complex)) or isinstance(b, (SymComplex, complex)):
            a, b = SymComplex.lift(a), SymComplex.lift(b)
            return SymComplex(Ite(c, a.re, b.re), Ite(c, a.im, b.im))
        if isinstance(a, (tuple, list)):
            return type(a)(Ite(c, x, y) for x, y in zip(a, b))
        if isinstance(a, (SymBool, bool)) and isinstance(b, (SymBool, bool)):
            return sym.Or(sym.And(c, a), sym.And(sym.Not(c), b))
        la, lb = _lift(a), _lift(b)
        ta, tb = la.t, lb.t
        if la.is_int != lb.is_int:
            ta, tb = la.real(), lb.real()
        return SymNum(z3.If(c.t, ta, tb))
    return a if c else b


def eq(a, b):
    """Equality: exact on symbols / ints / Fractions; up to float rounding when a
    Python float is involved (native replay of A-REAL obligations)."""
    if isinstance(a, (tuple, list)) and isinstance(b, (tuple, list)):
        if len(a) != len(b):
            return False
        return And(*[eq(x, y) for x, y in zip(a, b)])
    if a is None or b is None:
        return a is b
    if _is_sym(a) or _is_sym(b):
        return a == b
    if isinstance(a, (float, complex)) or isinstance(b, (float, complex)):
        try:
            d = abs(complex(a) - complex(b)) if isinstance(a, complex) or isinstance(b, complex) else abs(float(a) - float(b))
            scale = max(1.0, abs(complex(a)) if isinstance(a, complex) else abs(float(a)),
                        abs(complex(b)) if isinstance(b, complex) else abs(float(b)))
            return d <= 1e-9 * scale
        except TypeError:
            return a == b
    return a == b


def div(a, b):
    """Total division for spec functions (value at b == 0 is irrelevant: guard it)."""
    if _is_sym(a) or _is_sym(b):
        la, lb = _lift(a), _lift(b)
        return SymNum(la.real() / lb.real())
    if b == 0:
        return 0
    if isinstance(a, int) and isinstance(b, int):
        return Fraction(a, b)
    return a / b


def idiv(a, b):
    """Total floor division on ints, b > 0 concrete or symbolic-positive."""
    if _is_sym(a) or _is_sym(b):
        la, lb = _lift(a), _lift(b)
        return SymNum(la.t / lb.t)
    return a // b if b else 0


def imod(a, b):
    if _is_sym(a) or _is_sym(b):
        la, lb = _lift(a), _lift(b)
        return SymNum(la.t % lb.t)
    return a % b if b else 0


def Abs(a):
    if _is_sym(a):
        return abs(a)
    return abs(a)


def Min(a, b):
    return Ite(a <= b, a, b)


def Max(a, b):
    return Ite(a >= b, a, b)


def is_int_valued(x):
    if isinstance(x, SymNum):
        if x.is_int:
            return True
        return SymBool(z3.IsInt(x.t))
    return x == int(x)


def floor(x):
    if isinstance(x, SymNum):
        return x.__floor__()
    import math

    return math.floor(x)
