"""Models bound into a shadow module's namespace (pyvc.loader.shadow `rebind`):
symbolic byte strings, `struct`, and the builtins that CPython would otherwise
force to a concrete value (`len`, `int`, `float`, `bytes`, `ord`, ...).

Every model agrees with the real object on concrete arguments (it delegates to
it); `vcheck` cross-checks that on sampled inputs (differential guard).
"""
from __future__ import annotations

import builtins
from fractions import Fraction
import re
import struct as _struct

import z3

from . import sym
from .sym import SymBool, SymNum, Unsupported, _lift, ctx


# --------------------------------------------------------------------------
# byte strings


class Tail:
    """An opaque rest-of-input: bytes arr[off .. n) of an arbitrary byte array."""

    __slots__ = ("arr", "off", "n", "name")

    def __init__(self, name, arr=None, off=None, n=None):
        self.name = name
        self.arr = arr if arr is not None else z3.Array(name, z3.IntSort(), z3.IntSort())
        self.n = n if n is not None else SymNum(z3.Int(name + ".len"))
        self.off = off if off is not None else SymNum(z3.IntVal(0))

    def remaining(self):
        return self.n - self.off

    def at(self, k):
        """element at offset k from the current start (caller proved it exists)"""
        i = (self.off + k).t
        c = ctx()
        e = SymNum(z3.Select(self.arr, i))
        c.assume_term(z3.And(e.t >= 0, e.t <= 255))
        return e

    def drop(self, k):
        return Tail(self.name, self.arr, self.off + k, self.n)

    def same(self, o):
        return z3.eq(self.arr, o.arr) and z3.eq(self.n.t, o.n.t)


class SymBytes:
    """bytes whose elements may be symbolic; optional opaque symbolic-length tail."""

    __slots__ = ("items", "tail")

    def __init__(self, items=(), tail=None):
        self.items = list(items)
        self.tail = tail

    # -- length -------------------------------------------------------------
    def __symlen__(self):
        if self.tail is None:
            return len(self.items)
        return len(self.items) + self.tail.remaining()

    def __len__(self):
        if self.tail is None:
            return len(self.items)
        n = self.__symlen__()
        return n.__index__()  # concretises (bounded enumeration) or is out of reach

    def __bool__(self):
        if self.items:
            return True
        if self.tail is None:
            return False
        return bool(self.tail.remaining() > 0)

    # -- access -------------------------------------------------------------
    def _elem(self, i: int):
        if i < len(self.items):
            return self.items[i]
        if self.tail is None:
            raise IndexError("index out of range")
        k = i - len(self.items)
        if not bool(self.tail.remaining() > k):
            raise IndexError("index out of range")
        return self.tail.at(k)

    def __getitem__(self, i):
        if isinstance(i, slice):
            return self._slice(i)
        if isinstance(i, SymNum):
            ic = i.concrete()
            if ic is None:
                return self._select(i)
            i = ic
        if i < 0:
            if self.tail is not None:
                raise Unsupported("negative index into a byte string with a symbolic tail")
            i += len(self.items)
            if i < 0:
                raise IndexError("index out of range")
        return self._elem(i)

    def _select(self, i: SymNum):
        if self.tail is not None:
            raise Unsupported("symbolic index into a byte string with a symbolic tail")
        n = len(self.items)
        if not bool(SymBool(z3.And(i.t >= -n, i.t < n))):
            raise IndexError("index out of range")
        j = z3.If(i.t < 0, i.t + n, i.t)
        t = _lift(self.items[n - 1]).t if n else z3.IntVal(0)
        for k in range(n - 2, -1, -1):
            t = z3.If(j == k, _lift(self.items[k]).t, t)
        return SymNum(t)

    def _slice(self, s: slice):
        def conc(x):
            if isinstance(x, SymNum):
                c = x.concrete()
                if c is None:
                    c = x.__index__()
                return c
            return x

        start, stop, step = conc(s.start), conc(s.stop), conc(s.step)
        if step not in (None, 1):
            if self.tail is not None:
                raise Unsupported("stepped slice of a byte string with a symbolic tail")
            return SymBytes(self.items[slice(start, stop, step)])
        if self.tail is None:
            return SymBytes(self.items[slice(start, stop)])
        if (start is not None and start < 0) or (stop is not None and stop < 0):
            raise Unsupported("negative slice bound on a byte string with a symbolic tail")
        start = start or 0
        n = len(self.items)
        if stop is None:
            if start <= n:
                return SymBytes(self.items[start:], self.tail)
            k = start - n
            if bool(self.tail.remaining() >= k):
                return SymBytes([], self.tail.drop(k))
            return SymBytes([])
        # bounded prefix: materialise the needed tail elements that exist
        out = list(self.items[start:stop])
        for idx in range(max(start, n), stop):
            k = idx - n
            if bool(self.tail.remaining() > k):
                out.append(self.tail.at(k))
            else:
                break
        return SymBytes(out)

    def __iter__(self):
        if self.tail is not None:
            raise Unsupported("iteration over a byte string with a symbolic tail")
        return iter(self.items)

    # -- construction ---------------------------------------------------------
    @staticmethod
    def of(x):
        if isinstance(x, SymBytes):
            return x
        if isinstance(x, (bytes, bytearray, memoryview)):
            return SymBytes(list(bytes(x)))
        return NotImplemented

    def __add__(self, o):
        o = SymBytes.of(o)
        if o is NotImplemented:
            return NotImplemented
        if self.tail is not None:
            if not o.items and o.tail is None:
                return self
            raise Unsupported("concatenation after a symbolic tail")
        return SymBytes(self.items + o.items, o.tail)

    def __radd__(self, o):
        o = SymBytes.of(o)
        if o is NotImplemented:
            return NotImplemented
        return o + self

    def __mul__(self, k):
        if self.tail is not None:
            raise Unsupported("repeat of a byte string with a symbolic tail")
        return SymBytes(self.items * int(k))

    __rmul__ = __mul__

    # -- comparison -----------------------------------------------------------
    def __eq__(self, o):
        o = SymBytes.of(o)
        if o is NotImplemented:
            return False
        if (self.tail is None) != (o.tail is None):
            # equal only if the tail is empty and heads match
            t = self.tail or o.tail
            if len(self.items) != len(o.items):
                return False
            return sym.And(t.remaining() == 0, *[_lift(a) == b for a, b in zip(self.items, o.items)])
        if len(self.items) != len(o.items):
            if self.tail is None:
                return False
            raise Unsupported("comparison of byte strings with differently split symbolic tails")
        cs = [_lift(a) == b for a, b in zip(self.items, o.items)]
        if self.tail is not None:
            if not self.tail.same(o.tail):
                raise Unsupported("comparison of different symbolic tails")
            cs.append(self.tail.off == o.tail.off)
        return sym.And(*cs)

    def __ne__(self, o):
        return sym.Not(self.__eq__(o))

    def __hash__(self):
        # equal byte strings have equal length, so hashing by length is consistent with ==;
        # dict/set lookups then decide equality through __eq__ (which forks).  A container
        # that mixes real bytes and SymBytes keys is out of reach (their hashes differ).
        if self.tail is not None:
            raise Unsupported("hash of symbolic-length bytes")
        c = self.concrete()
        if c is not None:
            return hash(c)
        return hash(("SymBytes", len(self.items)))

    def __repr__(self):
        return "SymBytes(%r%s)" % (self.items, ", +tail" if self.tail is not None else "")

    def __deepcopy__(self, memo):
        return self

    def concrete(self):
        if self.tail is not None:
            return None
        out = []
        for x in self.items:
            if isinstance(x, SymNum):
                x = x.concrete()
                if x is None:
                    return None
            out.append(x)
        return bytes(out)

    def startswith(self, prefix):
        p = SymBytes.of(prefix)
        return self[: len(p.items)] == p

    def hex(self):
        raise Unsupported("hex() of symbolic bytes")


def _byte_checked(v, exc=ValueError, msg="bytes must be in range(0, 256)"):
    """bytes([v]) / struct 'B' semantics: out of range raises."""
    if isinstance(v, SymNum):
        if not v.is_int:
            raise TypeError("'float' object cannot be interpreted as an integer")
        if not bool(SymBool(z3.And(v.t >= 0, v.t <= 255))):
            raise exc(msg)
        return v
    if isinstance(v, SymBool):
        return v._as_num()
    if not 0 <= v <= 255:
        raise exc(msg)
    return v


# --------------------------------------------------------------------------
# builtins


def _has_sym(xs):
    return any(isinstance(x, (SymNum, SymBool)) for x in xs)


class _ShadowMeta(type):
    real = object

    def __instancecheck__(cls, obj):
        return cls._inst(obj)

    def __subclasscheck__(cls, sub):
        return issubclass(sub, cls.real)

    def __getattr__(cls, name):
        return getattr(cls.real, name)

    def __eq__(cls, o):
        return o is cls or o is cls.real

    def __hash__(cls):
        return hash(cls.real)


class _IntMeta(_ShadowMeta):
    real = builtins.int

    def _inst(cls, obj):
        return isinstance(obj, builtins.int) or (isinstance(obj, SymNum) and obj.is_int) or isinstance(obj, SymBool)

    def __call__(cls, *a, **k):
        if a and isinstance(a[0], SymNum):
            return a[0].__trunc__()
        if a and isinstance(a[0], SymBool):
            return a[0]._as_num()
        if a and isinstance(a[0], SymBytes):
            raise Unsupported("int() of symbolic bytes")
        return builtins.int(*a, **k)


class int_(metaclass=_IntMeta):
    pass


class _FloatMeta(_ShadowMeta):
    real = builtins.float

    def _inst(cls, obj):
        return isinstance(obj, builtins.float) or (isinstance(obj, SymNum) and not obj.is_int)

    def __call__(cls, *a, **k):
        if a and isinstance(a[0], SymNum):
            return SymNum(a[0].real())
        if a and isinstance(a[0], SymBool):
            return SymNum(z3.ToReal(a[0]._as_num().t))
        return builtins.float(*a, **k)


class float_(metaclass=_FloatMeta):
    pass


class _BytesMeta(_ShadowMeta):
    real = builtins.bytes

    def _inst(cls, obj):
        return isinstance(obj, (builtins.bytes, SymBytes))

    def __call__(cls, *a, **k):
        if len(a) == 1 and not k:
            x = a[0]
            if isinstance(x, SymBytes):
                return x
            if isinstance(x, (list, tuple)) and _has_sym(x):
                return SymBytes([_byte_checked(v) for v in x])
            if isinstance(x, SymNum):
                n = x.__index__()
                return builtins.bytes(n)
            if hasattr(x, "__iter__") and not isinstance(x, (builtins.bytes, bytearray, str, memoryview)):
                xs = list(x)
                if _has_sym(xs):
                    return SymBytes([_byte_checked(v) for v in xs])
                return builtins.bytes(xs)
        return builtins.bytes(*a, **k)


class bytes_(metaclass=_BytesMeta):
    pass


def len_(x):
    f = getattr(x, "__symlen__", None)
    if f is not None:
        return f()
    return builtins.len(x)


def ord_(x):
    if isinstance(x, SymBytes):
        if x.tail is None and len(x.items) == 1:
            return x.items[0]
        n = x.__symlen__()
        if isinstance(n, builtins.int):
            raise TypeError("ord() expected a character, but string of length %d found" % n)
        if bool(n == 1):
            return x[0]
        raise TypeError("ord() expected a character, but string of wrong length found")
    return builtins.ord(x)


def chr_(x):
    if isinstance(x, SymNum):
        c = x.concrete()
        if c is None:
            raise Unsupported("chr() of a symbolic int")
        return builtins.chr(c)
    return builtins.chr(x)


def bytechr_(n):
    """fontTools.misc.textTools.bytechr: bytes([n])"""
    if isinstance(n, (SymNum, SymBool)):
        return SymBytes([_byte_checked(n)])
    return builtins.bytes([n])


def byteord_(c):
    """fontTools.misc.textTools.byteord: c if isinstance(c, int) else ord(c)"""
    if isinstance(c, (SymNum, builtins.int)):
        return c
    return ord_(c)


def bytesjoin_(iterable, joiner=b""):
    out = SymBytes.of(b"")
    first = True
    j = SymBytes.of(joiner if isinstance(joiner, (bytes, SymBytes)) else joiner.encode("latin-1"))
    for x in iterable:
        if isinstance(x, str):
            x = x.encode("latin-1")
        if not first and j.items:
            out = out + j
        out = out + x
        first = False
    c = out.concrete()
    return c if c is not None else out


def isinstance_(obj, cls):
    return builtins.isinstance(obj, cls)


class SymFormat:
    """The result of `"literal" % args` with symbolic args (see loader._FmtRewrite)."""

    def __init__(self, template, args):
        self.template = template
        self.args = args if isinstance(args, tuple) else (args,)

    def __str__(self):
        return self.template

    __repr__ = __str__

    def __contains__(self, s):
        return s in self.template

    def __deepcopy__(self, memo):
        return self


def has_symbolic(x):
    if isinstance(x, (SymNum, SymBool, SymBytes)) or type(x).__name__ in ("Blob", "SymTag", "SymComplex"):
        return True
    if isinstance(x, (tuple, list)):
        return any(has_symbolic(y) for y in x)
    return False


class GhostWords:
    """struct.unpack(">%dL" % n, data) for a symbolic count n: n big-endian words of `data`."""

    def __init__(self, blob, size, count, signed=False):
        self.blob, self.size, self.count, self.signed = blob, size, count, signed

    def __symlen__(self):
        return self.count

    def __len__(self):
        return self.count.__index__() if isinstance(self.count, SymNum) else self.count

    def at(self, i):
        piece = self.blob._slice(i * self.size, i * self.size + self.size).materialize(self.size)
        t = z3.IntVal(0)
        for b in piece.items:
            t = t * 256 + _lift(b).t
        if self.signed:
            t = z3.If(t >= z3.IntVal(1 << (8 * self.size - 1)), t - z3.IntVal(1 << (8 * self.size)), t)
        return SymNum(t)

    def __getitem__(self, i):
        i = _lift(i)
        n = _lift(self.count)
        if not bool(SymBool(z3.And(i.t >= -n.t, i.t < n.t))):
            raise IndexError("tuple index out of range")
        if bool(i < 0):
            i = i + n
        return self.at(i)

    def __deepcopy__(self, memo):
        return self


# --------------------------------------------------------------------------
# struct

_FMT_RE = re.compile(r"(\d*)([xcbBhHiIlLqQs?])")
_SIZES = {"x": 1, "c": 1, "b": 1, "B": 1, "?": 1, "h": 2, "H": 2, "i": 4, "I": 4, "l": 4, "L": 4, "q": 8, "Q": 8, "s": 1}
_SIGNED = set("bhilq")


def _parse_fmt(fmt):
    if isinstance(fmt, bytes):
        fmt = fmt.decode("ascii")
    fmt = fmt.replace(" ", "")
    order = ">"
    if fmt and fmt[0] in "<>=!@":
        order, fmt = fmt[0], fmt[1:]
    elif fmt:
        order = "@"
    if order == "!":
        order = ">"
    items = []
    pos = 0
    while pos < len(fmt):
        m = _FMT_RE.match(fmt, pos)
        if not m:
            raise Unsupported("struct format %r" % fmt)
        cnt = int(m.group(1)) if m.group(1) else None
        items.append((cnt, m.group(2)))
        pos = m.end()
    if order in "@=":
        # native order: only single-byte codes are layout-independent
        if any(ch not in "xcbBs?" for _, ch in items):
            if order == "@":
                if len(items) == 1 and items[0][0] is None:
                    return "@", items      # single native field: no alignment padding (x86-64 sizes)
                raise Unsupported("native-alignment struct format %r" % fmt)
            order = "<"  # '=' on a little-endian host
        else:
            order = ">"
    return order, items


_NATIVE_SIZES = dict(_SIZES, l=8, L=8)


class SymStruct:
    """Model of the `struct` module for big/little-endian standard-size formats."""

    error = _struct.error
    calcsize = staticmethod(_struct.calcsize)
    Struct = _struct.Struct

    @staticmethod
    def pack(fmt, *vals):
        if not any(isinstance(v, (SymNum, SymBool, SymBytes)) for v in vals):
            return _struct.pack(fmt, *vals)
        order, items = _parse_fmt(fmt)
        sizes = _SIZES
        if order == "@":
            assert _struct.calcsize("l") == 8 and _struct.pack("H", 1) == b"\x01\x00", "native struct model is for x86-64 Linux"
            sizes, order = _NATIVE_SIZES, "<"
        out = []
        vi = 0
        vals = list(vals)

        def take():
            nonlocal vi
            if vi >= len(vals):
                raise _struct.error("pack expected more items for packing")
            v = vals[vi]
            vi += 1
            return v

        for cnt, ch in items:
            if ch == "x":
                out.extend([0] * (cnt or 1))
                continue
            if ch == "s":
                v = take()
                n = cnt if cnt is not None else 1
                b = SymBytes.of(v)
                if b is NotImplemented:
                    raise _struct.error("argument for 's' must be a bytes object")
                if b.tail is not None:
                    raise Unsupported("struct 's' with symbolic-length bytes")
                its = list(b.items[:n])
                its += [0] * (n - len(its))
                out.extend(its)
                continue
            for _ in range(cnt if cnt is not None else 1):
                v = take()
                if ch == "c":
                    b = SymBytes.of(v)
                    if b is NotImplemented or b.tail is not None or len(b.items) != 1:
                        raise _struct.error("char format requires a bytes object of length 1")
                    out.append(b.items[0])
                    continue
                if ch == "?":
                    out.append(1 if v else 0)
                    continue
                size = sizes[ch]
                if isinstance(v, SymBool):
                    v = v._as_num()
                if isinstance(v, SymNum):
                    if not v.is_int:
                        raise _struct.error("required argument is not an integer")
                    lo, hi = (-(1 << (8 * size - 1)), (1 << (8 * size - 1)) - 1) if ch in _SIGNED else (0, (1 << (8 * size)) - 1)
                    if not bool(SymBool(z3.And(v.t >= lo, v.t <= hi))):
                        raise _struct.error("'%s' format requires %d <= number <= %d" % (ch, lo, hi))
                    # bytes as fresh variables tied to the value by ONE linear equation
                    # (definitional: the base-256 digits of the two's complement are unique)
                    cx = ctx()
                    if v.bits is not None and ch not in _SIGNED and len(v.bits) <= 8 * size:
                        from .sym import _from_bits
                        vb = list(v.bits) + [z3.BoolVal(False)] * (8 * size - len(v.bits))
                        bs = [_from_bits(vb[8 * k:8 * k + 8]) for k in reversed(range(size))]
                    elif size == 1:
                        bs = [v if ch not in _SIGNED else SymNum(z3.If(v.t < 0, v.t + 256, v.t))]
                    else:
                        bs = [cx.fresh_int("pk") for _ in range(size)]
                        total = z3.IntVal(0)
                        for b in bs:
                            cx.assume_term(z3.And(b.t >= 0, b.t <= 255))
                            total = total * 256 + b.t
                        if ch in _SIGNED:
                            cx.assume_term(total == z3.If(v.t < 0, v.t + z3.IntVal(1 << (8 * size)), v.t))
                        else:
                            cx.assume_term(total == v.t)
                    if order == "<":
                        bs.reverse()
                    out.extend(bs)
                else:
                    if isinstance(v, float):
                        raise _struct.error("required argument is not an integer")
                    out.extend(_struct.pack(order + ch, v))
        if vi != len(vals):
            raise _struct.error("pack expected %d items for packing (got %d)" % (vi, len(vals)))
        r = SymBytes(out)
        c = r.concrete()
        return c if c is not None else r

    @staticmethod
    def unpack(fmt, data):
        if isinstance(fmt, SymFormat):
            m = re.match(r"^([<>!])%d([BHLIhlib])$", fmt.template)
            if not m or len(fmt.args) != 1:
                raise Unsupported("struct format %r with symbolic arguments" % fmt.template)
            count = fmt.args[0]
            if not bool(count >= 0):
                raise _struct.error("bad char in struct format")
            size = _SIZES[m.group(2)]
            from .blobs import Blob

            blob = Blob.of(data)
            n = blob.__symlen__()
            if not bool(_lift(n) == count * size):
                raise _struct.error("unpack requires a buffer of the declared size")
            if m.group(1) == "<":
                raise Unsupported("little-endian symbolic-count unpack")
            return GhostWords(blob, size, count, signed=m.group(2) in _SIGNED)
        if isinstance(data, (bytes, bytearray, memoryview)):
            return _struct.unpack(fmt, data)
        if hasattr(data, "materialize"):      # Blob: needs a provably concrete length
            need0 = _struct.calcsize(fmt)
            n0 = data.__symlen__()
            if isinstance(n0, builtins.int):
                if n0 != need0:
                    raise _struct.error("unpack requires a buffer of %d bytes" % need0)
            elif not bool(n0 == need0):
                raise _struct.error("unpack requires a buffer of %d bytes" % need0)
            data = data.materialize(need0)
        if not isinstance(data, SymBytes):
            raise TypeError("a bytes-like object is required")
        order, items = _parse_fmt(fmt)
        if order == "@":
            raise Unsupported("native struct.unpack on symbolic data")
        need = sum((cnt if cnt is not None else 1) * _SIZES[ch] for cnt, ch in items)
        n = data.__symlen__()
        if isinstance(n, builtins.int):
            if n != need:
                raise _struct.error("unpack requires a buffer of %d bytes" % need)
        elif not bool(n == need):
            raise _struct.error("unpack requires a buffer of %d bytes" % need)
        pos = 0
        out = []
        for cnt, ch in items:
            if ch == "x":
                pos += cnt or 1
                continue
            if ch == "s":
                k = cnt if cnt is not None else 1
                piece = SymBytes([data[pos + j] for j in range(k)])
                c = piece.concrete()
                out.append(c if c is not None else piece)
                pos += k
                continue
            for _ in range(cnt if cnt is not None else 1):
                size = _SIZES[ch]
                bs = [data[pos + j] for j in range(size)]
                pos += size
                if ch == "c":
                    piece = SymBytes(bs)
                    c = piece.concrete()
                    out.append(c if c is not None else piece)
                    continue
                if order == "<":
                    bs = bs[::-1]
                if ch not in _SIGNED and ch != "?" and any(isinstance(b, SymNum) and b.bits is not None for b in bs) \
                        and all((isinstance(b, SymNum) and b.bits is not None and len(b.bits) <= 8) or isinstance(b, builtins.int) for b in bs):
                    from .sym import _from_bits
                    allbits = []
                    for b in reversed(bs):
                        if isinstance(b, builtins.int):
                            allbits += [z3.BoolVal(bool((b >> i) & 1)) for i in range(8)]
                        else:
                            allbits += list(b.bits) + [z3.BoolVal(False)] * (8 - len(b.bits))
                    out.append(_from_bits(allbits))
                    continue
                t = z3.IntVal(0)
                for b in bs:
                    t = t * 256 + _lift(b).t
                if ch == "?":
                    out.append(SymBool(t != 0))
                    continue
                if ch in _SIGNED:
                    t = z3.If(t >= z3.IntVal(1 << (8 * size - 1)), t - z3.IntVal(1 << (8 * size)), t)
                v = SymNum(z3.simplify(t))
                c = v.concrete()
                out.append(c if c is not None else v)
        return tuple(out)

    @staticmethod
    def unpack_from(fmt, data, offset=0):
        size = _struct.calcsize(fmt)
        if isinstance(data, SymBytes):
            return SymStruct.unpack(fmt, data[offset:offset + size])
        return _struct.unpack_from(fmt, data, offset)


STD = {
    "struct": SymStruct,
    "int": int_,
    "float": float_,
    "bytes": bytes_,
    "len": len_,
    "ord": ord_,
    "chr": chr_,
}

TEXTTOOLS = {"bytechr": bytechr_, "byteord": byteord_, "bytesjoin": bytesjoin_}


def std(*names, **extra):
    """rebind table: the standard models actually used by a module (+ extras)."""
    d = {}
    for n in names:
        d[n] = STD[n] if n in STD else TEXTTOOLS[n]
    d.update(extra)
    return d


# --------------------------------------------------------------------------
# commonly needed shadow modules (helpers that the targets import)


def tobytes_(s, encoding="ascii", errors="strict"):
    if isinstance(s, SymBytes) or hasattr(s, "materialize"):
        return s
    from fontTools.misc.textTools import tobytes

    return tobytes(s, encoding, errors)


def tostr_(s, encoding="ascii", errors="strict"):
    if isinstance(s, SymBytes):
        c = s.concrete()
        if c is None:
            return s          # stays a symbolic byte string (callers compare, never decode)
        s = c
    from fontTools.misc.textTools import tostr

    return tostr(s, encoding, errors)


def sstruct_shadow():
    from . import loader

    ft = fixed_tools()
    return loader.shadow("fontTools.misc.sstruct",
                         std("struct", "bytes", "len", fl2fi=ft.floatToFixed, fi2fl=ft.fixedToFloat,
                             tobytes=tobytes_, tostr=tostr_), cache_key="std")


def round_tools():
    from . import loader

    return loader.shadow("fontTools.misc.roundTools", std("int", "float"), cache_key="std")


def fixed_tools():
    from . import loader

    rt = round_tools()
    return loader.shadow("fontTools.misc.fixedTools",
                         std("int", "float", "len", otRound=rt.otRound,
                             nearestMultipleShortestRepr=rt.nearestMultipleShortestRepr), cache_key="std")


# --------------------------------------------------------------------------
# array.array model (typecodes b B h H i I l L on a little-endian x86-64 host)

import array as _array
import sys as _sys

_ARR = {"b": (1, True), "B": (1, False), "h": (2, True), "H": (2, False), "i": (4, True), "I": (4, False),
        "l": (8, True), "L": (8, False), "q": (8, True), "Q": (8, False)}


class _Raw:
    """an array item still held as its bytes (from frombytes)"""

    def __init__(self, bs):
        self.bs = bs


class SymArray:
    """array.array whose items may be symbolic.  `swapped` records byteswap() calls, so
    tobytes()/frombytes() produce/consume the right byte order."""

    def __init__(self, typecode, init=()):
        assert _sys.byteorder == "little", "array model is for a little-endian host"
        if typecode not in _ARR and typecode != "d":
            raise Unsupported("array typecode %r" % typecode)
        self.typecode = typecode
        # 'd': items are reals (A-REAL: binary64 as mathematical reals); only all-zero byte images
        # can be read, nothing can be written as bytes
        self.itemsize, self.signed = _ARR[typecode] if typecode != "d" else (8, True)
        self.items = []
        self.swapped = False
        if isinstance(init, (bytes, bytearray, SymBytes)):
            self.frombytes(init)
        else:
            for v in init:
                self.append(v)

    def _check(self, v):
        if self.typecode == "d":
            if isinstance(v, SymBool):
                v = v._as_num()
            if isinstance(v, builtins.int) and not isinstance(v, builtins.bool):
                return builtins.float(v)          # a real array('d') holds floats only
            if isinstance(v, (SymNum, builtins.float, Fraction)):
                return v
            raise TypeError("must be real number, not %s" % type(v).__name__)
        n = self.itemsize * 8
        lo, hi = (-(1 << (n - 1)), (1 << (n - 1)) - 1) if self.signed else (0, (1 << n) - 1)
        if isinstance(v, SymBool):
            v = v._as_num()
        if isinstance(v, SymNum):
            if not v.is_int:
                raise TypeError("integer argument expected, got float")
            if not bool(SymBool(z3.And(v.t >= lo, v.t <= hi))):
                raise OverflowError("array item out of range for typecode %r" % self.typecode)
            return v
        if isinstance(v, float):
            raise TypeError("integer argument expected, got float")
        if not lo <= v <= hi:
            raise OverflowError("array item out of range for typecode %r" % self.typecode)
        return v

    def append(self, v):
        self.items.append(self._check(v))

    def extend(self, vs):
        for v in vs:
            self.append(v)

    def byteswap(self):
        self.swapped = not self.swapped
        for x in self.items:
            if isinstance(x, _Raw):
                x.bs = x.bs[::-1]
        # raw items: memory bytes reversed AND interpretation flag flipped would cancel out, so
        # interpret raw bytes always natively (little-endian) after physically swapping them


    def _bytes_of(self, v, big):
        size = self.itemsize
        if isinstance(v, SymNum):
            cx = ctx()
            bs = [cx.fresh_int("ab") for _ in range(size)]
            total = z3.IntVal(0)
            for b in bs:
                cx.assume_term(z3.And(b.t >= 0, b.t <= 255))
                total = total * 256 + b.t
            cx.assume_term(total == (z3.If(v.t < 0, v.t + z3.IntVal(1 << (8 * size)), v.t) if self.signed else v.t))
        else:
            bs = list(int(v).to_bytes(size, "big", signed=self.signed))
        return bs if big else bs[::-1]

    def tobytes(self):
        if self.typecode == "d":
            raise Unsupported("byte image of an array of doubles")
        out = []
        for v in self.items:
            if isinstance(v, _Raw):
                out.extend(v.bs)          # bytes in memory are unchanged by reading; byteswap reverses them
                continue
            out.extend(self._bytes_of(v, big=self.swapped))
        r = SymBytes(out)
        c = r.concrete()
        return c if c is not None else r

    def frombytes(self, data):
        data = SymBytes.of(data)
        if data.tail is not None:
            raise Unsupported("array.frombytes of symbolic-length data")
        n = len(data.items)
        if n % self.itemsize:
            raise ValueError("bytes length not a multiple of item size")
        if self.typecode == "d":
            if any(not isinstance(b, builtins.int) or b for b in data.items):
                raise Unsupported("doubles from a non-zero byte image")
            self.items.extend([0.0] * (n // 8))
            return
        for k in range(0, n, self.itemsize):
            # kept as raw bytes: the value depends on whether byteswap() is (later) applied
            self.items.append(_Raw(list(data.items[k:k + self.itemsize])))

    def _value(self, x):
        if isinstance(x, _Raw):
            bs = x.bs[::-1]      # memory bytes (already physically swapped by byteswap) read as native little-endian
            t = z3.IntVal(0)
            for b in bs:
                t = t * 256 + _lift(b).t
            if self.signed:
                t = z3.If(t >= z3.IntVal(1 << (8 * self.itemsize - 1)), t - z3.IntVal(1 << (8 * self.itemsize)), t)
            v = SymNum(z3.simplify(t))
            c = v.concrete()
            return c if c is not None else v
        if self.swapped:
            raise Unsupported("reading items of a byte-swapped array built from values")
        if self.typecode == "d" and type(x) is SymNum and not x.is_int:
            from .sym import SymFloat
            return SymFloat(x.t)
        return x

    def __len__(self):
        return len(self.items)

    def __iter__(self):
        return iter([self._value(x) for x in self.items])

    def __getitem__(self, i):
        if isinstance(i, slice):
            a = SymArray(self.typecode)
            a.items = self.items[i]
            a.swapped = self.swapped
            return a
        return self._value(self.items[i])

    def __setitem__(self, i, v):
        self.items[i] = self._check(v)

    def __eq__(self, o):
        if isinstance(o, SymArray):
            if len(o.items) != len(self.items):
                return False
            return sym.And(*[_lift(a) == b for a, b in zip(self.items, o.items)])
        return False

    def __hash__(self):
        return id(self)

    def tolist(self):
        return [self._value(x) for x in self.items]

    def __deepcopy__(self, memo):
        a = SymArray(self.typecode)
        a.items = list(self.items)
        a.swapped = self.swapped
        return a


class _ArrayModule:
    ArrayType = SymArray

    @staticmethod
    def array(typecode, init=()):
        if isinstance(init, SymArray):
            if init.swapped:
                raise Unsupported("array from a byte-swapped array")
            init = init.items
        if not isinstance(init, (bytes, bytearray, SymBytes)):
            init = list(init)
            if not _has_sym(init):
                try:
                    ra = _array.array(typecode, init)
                except Exception:
                    raise
                a = SymArray(typecode)
                a.items = list(ra)
                return a
        return SymArray(typecode, init)


STD["array"] = _ArrayModule


# --------------------------------------------------------------------------
# bytearray model


class _ByteArrayMeta(_ShadowMeta):
    real = builtins.bytearray

    def _inst(cls, obj):
        return isinstance(obj, (builtins.bytearray, SymByteArray))

    def __call__(cls, *a, **k):
        return SymByteArray(*a, **k)


class SymByteArray:
    """bytearray whose elements may be symbolic (always list-backed; concrete length)."""

    def __init__(self, init=None):
        if init is None:
            self.items = []
        elif isinstance(init, builtins.int):
            self.items = [0] * init
        elif isinstance(init, SymNum):
            self.items = [0] * init.__index__()
        elif isinstance(init, SymBytes):
            self.items = list(init.items)
        elif isinstance(init, SymByteArray):
            self.items = list(init.items)
        else:
            self.items = [_byte_checked(v) for v in init]

    def append(self, v):
        self.items.append(_byte_checked(v, ValueError, "byte must be in range(0, 256)"))

    def extend(self, vs):
        if isinstance(vs, (SymBytes, SymByteArray)):
            self.items.extend(vs.items)
        elif isinstance(vs, SymArray):
            # buffer protocol: the array's memory bytes, not its item values
            self.items.extend(SymBytes.of(vs.tobytes()).items)
        else:
            for v in vs:
                self.append(v)

    def __len__(self):
        return len(self.items)

    def __symlen__(self):
        return len(self.items)

    def __getitem__(self, i):
        if isinstance(i, slice):
            return SymBytes(self.items[i])
        if isinstance(i, SymNum):
            i = i.__index__()
        return self.items[i]

    def __setitem__(self, i, v):
        if isinstance(i, SymNum):
            i = i.__index__()
        self.items[i] = _byte_checked(v, ValueError, "byte must be in range(0, 256)")

    def __iter__(self):
        return iter(self.items)

    def __add__(self, o):
        return SymBytes(self.items) + o

    def __radd__(self, o):
        return o + SymBytes(self.items)

    def __iadd__(self, o):
        self.extend(SymBytes.of(o).items if not isinstance(o, SymByteArray) else o.items)
        return self

    def __eq__(self, o):
        return SymBytes(self.items) == (SymBytes(o.items) if isinstance(o, SymByteArray) else o)

    def __hash__(self):
        raise TypeError("unhashable type: 'bytearray'")

    def __bool__(self):
        return bool(self.items)

    def __deepcopy__(self, memo):
        b = SymByteArray()
        b.items = list(self.items)
        return b


class bytearray_(metaclass=_ByteArrayMeta):
    pass


STD["bytearray"] = bytearray_
_orig_symbytes_of = SymBytes.of


def _symbytes_of(x):
    if isinstance(x, SymByteArray):
        return SymBytes(list(x.items))
    return _orig_symbytes_of(x)


SymBytes.of = staticmethod(_symbytes_of)


# --------------------------------------------------------------------------
# range() whose bounds are symbolic but whose LENGTH is decided by the path


class _RangeMeta(_ShadowMeta):
    real = builtins.range

    def _inst(cls, obj):
        return isinstance(obj, builtins.range)

    def __call__(cls, *a):
        if not any(isinstance(x, (SymNum, SymBool)) for x in a):
            return builtins.range(*a)
        if len(a) == 1:
            start, stop, step = 0, a[0], 1
        elif len(a) == 2:
            start, stop, step = a[0], a[1], 1
        else:
            start, stop, step = a
        if isinstance(step, SymNum):
            step = step.concrete()
        if step != 1:
            raise Unsupported("range() with a symbolic bound and a step other than 1")
        n = _lift(stop) - _lift(start)
        k = n.concrete()
        if k is None:
            # the number of iterations must be a definite number on this path
            k = n.__index__()         # forks over the (few) feasible values
        return [start + i for i in range(max(0, k))]


class range_(metaclass=_RangeMeta):
    pass


STD["range"] = range_
