"""PYVC symbolic values: proxies that CPython computes with while the real
fontTools code runs.  Arithmetic builds z3 terms; every Python-level decision
(``__bool__``) is answered by the active path context (pyvc.explore).

Trusted base of this file: the lifting of Python's numeric operators to z3
(`//` and `%` with floor semantics, `/` always real, int() truncation, float
literals read as the simplest rational in their rounding interval).
"""
from __future__ import annotations

import math
from fractions import Fraction

import z3

# --------------------------------------------------------------------------
# active path context (set by pyvc.explore)

_CTX = None


def ctx():
    if _CTX is None:
        raise RuntimeError("pyvc: symbolic value used outside an exploration")
    return _CTX


def set_ctx(c):
    global _CTX
    old = _CTX
    _CTX = c
    return old


class PathInfeasible(BaseException):
    """assume() failed on this path: the path does not exist."""


class Unsupported(BaseException):
    """A construct outside the engine's reach.  BaseException so that the code
    under verification cannot swallow it with ``except Exception``."""


# --------------------------------------------------------------------------
# float literal lifting


def _simplest_between(lo: Fraction, hi: Fraction) -> Fraction:
    """Simplest fraction in the closed interval [lo, hi], lo <= hi (Stern-Brocot)."""
    if lo > hi:
        lo, hi = hi, lo
    if lo <= 0 <= hi:
        return Fraction(0)
    if hi < 0:
        return -_simplest_between(-hi, -lo)
    # 0 < lo <= hi
    fl = math.floor(lo)
    if fl == lo:
        return Fraction(fl)
    if fl + 1 <= hi:
        return Fraction(fl + 1)
    # same integer part
    rest = _simplest_between(1 / (hi - fl), 1 / (lo - fl))
    return fl + 1 / rest


_LIFT_CACHE: dict = {}


def lift_float(f: float) -> Fraction:
    """A float met in the code (literal, constant-folded expression, module
    constant) denotes the simplest rational inside its rounding interval."""
    if f != f or f in (math.inf, -math.inf):
        raise Unsupported("non-finite float constant")
    r = _LIFT_CACHE.get(f)
    if r is None:
        exact = Fraction(f)
        if exact.denominator <= (1 << 40):  # dyadic with short mantissa: exact
            r = exact
        else:
            up = Fraction(math.nextafter(f, math.inf))
            dn = Fraction(math.nextafter(f, -math.inf))
            # half-ulp interval, open at the ends: shrink by a hair
            lo = exact - (exact - dn) / 2
            hi = exact + (up - exact) / 2
            eps = (hi - lo) / 1024
            r = _simplest_between(lo + eps, hi - eps)
        _LIFT_CACHE[f] = r
    return r


# --------------------------------------------------------------------------
# helpers


def _q(fr: Fraction):
    return z3.RealVal(str(fr.numerator) + "/" + str(fr.denominator)) if fr.denominator != 1 else z3.RealVal(fr.numerator)


def _simp(t):
    return z3.simplify(t)


def is_sym(x) -> bool:
    return isinstance(x, (SymNum, SymBool, SymComplex))


class SymBool:
    __slots__ = ("t",)

    def __init__(self, t):
        self.t = t

    def __bool__(self):
        s = _simp(self.t)
        if z3.is_true(s):
            return True
        if z3.is_false(s):
            return False
        return ctx().branch(s)

    # non-forking combinators ------------------------------------------------
    def __and__(self, o):
        o = lift_bool(o)
        return SymBool(z3.And(self.t, o.t)) if o is not NotImplemented else NotImplemented

    __rand__ = __and__

    def __or__(self, o):
        o = lift_bool(o)
        return SymBool(z3.Or(self.t, o.t)) if o is not NotImplemented else NotImplemented

    __ror__ = __or__

    def __invert__(self):
        return SymBool(z3.Not(self.t))

    def __xor__(self, o):
        o = lift_bool(o)
        return SymBool(z3.Xor(self.t, o.t)) if o is not NotImplemented else NotImplemented

    __rxor__ = __xor__

    def __eq__(self, o):
        o = lift_bool(o)
        if o is NotImplemented:
            return False
        return SymBool(self.t == o.t)

    def __ne__(self, o):
        o = lift_bool(o)
        if o is NotImplemented:
            return True
        return SymBool(self.t != o.t)

    def __hash__(self):
        raise Unsupported("hash of a symbolic bool")

    def __repr__(self):
        return "SymBool(%s)" % self.t

    def __deepcopy__(self, memo):
        return self

    def __copy__(self):
        return self

    # bools are ints in Python
    def _as_num(self):
        return SymNum(z3.If(self.t, z3.IntVal(1), z3.IntVal(0)))

    def __add__(self, o):
        return self._as_num() + o

    __radd__ = __add__

    def __mul__(self, o):
        return self._as_num() * o

    __rmul__ = __mul__

    def __int__(self):
        raise Unsupported("int() of SymBool outside a shadowed namespace")


def lift_bool(x):
    if isinstance(x, SymBool):
        return x
    if isinstance(x, bool):
        return SymBool(z3.BoolVal(x))
    return NotImplemented


def _lift(x):
    """Python number / proxy -> SymNum, or NotImplemented."""
    if isinstance(x, SymNum):
        return x
    if isinstance(x, bool):
        return SymNum(z3.IntVal(int(x)))
    if isinstance(x, int):
        return SymNum(z3.IntVal(x))
    if isinstance(x, float):
        return SymNum(_q(lift_float(x)))
    if isinstance(x, Fraction):
        return SymNum(_q(x))
    if isinstance(x, SymBool):
        return x._as_num()
    return NotImplemented


def _pow2(k: int):
    return z3.IntVal(1 << k)


class SymNum:
    """Python int (z3 Int sort) or float-as-real (z3 Real sort)."""

    __slots__ = ("t", "lz", "bits")

    def __init__(self, t, lz=0, bits=None):
        self.t = t
        self.lz = lz   # number of low bits known to be zero (set by `<< k`), for disjoint `|`
        self.bits = bits   # tuple of z3 Bools (LSB first) when the value is known bit by bit

    # -- sort ---------------------------------------------------------------
    @property
    def is_int(self):
        return self.t.sort().kind() == z3.Z3_INT_SORT

    def concrete(self):
        """Python value if the term is a numeral, else None."""
        s = _simp(self.t)
        if z3.is_int_value(s):
            return s.as_long()
        if z3.is_rational_value(s):
            return Fraction(s.numerator_as_long(), s.denominator_as_long())
        return None

    def real(self):
        return self.t if not self.is_int else z3.ToReal(self.t)

    # -- arithmetic ---------------------------------------------------------
    def _bin(self, o, f):
        o = _lift(o)
        if o is NotImplemented:
            return NotImplemented
        return SymNum(f(self.t, o.t))

    def _rbin(self, o, f):
        o = _lift(o)
        if o is NotImplemented:
            return NotImplemented
        return SymNum(f(o.t, self.t))

    def __add__(self, o):
        if isinstance(o, SymComplex) or isinstance(o, complex):
            return SymComplex.lift(self) + o
        return self._bin(o, lambda a, b: a + b)

    def __radd__(self, o):
        if isinstance(o, complex):
            return SymComplex.lift(o) + self
        return self._rbin(o, lambda a, b: a + b)

    def __sub__(self, o):
        if isinstance(o, SymComplex) or isinstance(o, complex):
            return SymComplex.lift(self) - o
        return self._bin(o, lambda a, b: a - b)

    def __rsub__(self, o):
        if isinstance(o, complex):
            return SymComplex.lift(o) - self
        return self._rbin(o, lambda a, b: a - b)

    def __mul__(self, o):
        if isinstance(o, SymComplex) or isinstance(o, complex):
            return SymComplex.lift(o) * self
        if isinstance(o, (bytes, bytearray)):
            return _bytes_times(o, self)
        return self._bin(o, lambda a, b: a * b)

    def __rmul__(self, o):
        if isinstance(o, complex):
            return SymComplex.lift(o) * self
        if isinstance(o, (bytes, bytearray)):
            return _bytes_times(o, self)
        return self._rbin(o, lambda a, b: a * b)

    def __neg__(self):
        return SymNum(-self.t)

    def __pos__(self):
        return self

    def __abs__(self):
        return SymNum(z3.If(self.t >= 0, self.t, -self.t))

    @staticmethod
    def _truediv(a: "SymNum", b: "SymNum"):
        if bool(SymBool(b.t == 0)):
            raise ZeroDivisionError("division by zero")
        return SymNum(a.real() / b.real())

    def __truediv__(self, o):
        if isinstance(o, SymComplex) or isinstance(o, complex):
            return SymComplex.lift(self) / o
        o = _lift(o)
        if o is NotImplemented:
            return NotImplemented
        return SymNum._truediv(self, o)

    def __rtruediv__(self, o):
        if isinstance(o, complex):
            return SymComplex.lift(o) / self
        o = _lift(o)
        if o is NotImplemented:
            return NotImplemented
        return SymNum._truediv(o, self)

    @staticmethod
    def _floordiv(a: "SymNum", b: "SymNum"):
        if bool(SymBool(b.t == 0)):
            raise ZeroDivisionError("integer division or modulo by zero")
        if a.is_int and b.is_int:
            bc = b.concrete()
            if bc is not None:
                if bc > 0:
                    return SymNum(a.t / b.t)  # z3 int div == floor for positive divisor
                return SymNum((-a.t) / (-b.t))
            return SymNum(z3.If(b.t > 0, a.t / b.t, (-a.t) / (-b.t)))
        # float floor division: result is a float holding an integer
        return SymNum(z3.ToReal(z3.ToInt(a.real() / b.real())))

    def __floordiv__(self, o):
        o = _lift(o)
        if o is NotImplemented:
            return NotImplemented
        return SymNum._floordiv(self, o)

    def __rfloordiv__(self, o):
        o = _lift(o)
        if o is NotImplemented:
            return NotImplemented
        return SymNum._floordiv(o, self)

    @staticmethod
    def _mod(a, b):
        q = SymNum._floordiv(a, b)
        return SymNum(a.t - b.t * q.t) if (a.is_int and b.is_int) else SymNum(a.real() - b.real() * q.real())

    def __mod__(self, o):
        o = _lift(o)
        if o is NotImplemented:
            return NotImplemented
        return SymNum._mod(self, o)

    def __rmod__(self, o):
        o = _lift(o)
        if o is NotImplemented:
            return NotImplemented
        return SymNum._mod(o, self)

    def __divmod__(self, o):
        o = _lift(o)
        if o is NotImplemented:
            return NotImplemented
        return (SymNum._floordiv(self, o), SymNum._mod(self, o))

    def __rdivmod__(self, o):
        o = _lift(o)
        if o is NotImplemented:
            return NotImplemented
        return (SymNum._floordiv(o, self), SymNum._mod(o, self))

    def __pow__(self, o, mod=None):
        if mod is not None:
            raise Unsupported("3-argument pow on a symbolic value")
        if isinstance(o, SymNum):
            oc = o.concrete()
            if oc is None:
                raise Unsupported("symbolic exponent")
            o = oc
        if isinstance(o, int) and 0 <= o <= 8:
            r = SymNum(z3.IntVal(1)) if self.is_int else SymNum(z3.RealVal(1))
            for _ in range(o):
                r = r * self
            return r
        raise Unsupported("power with exponent %r" % (o,))

    def __rpow__(self, o):
        c = self.concrete()
        if c is not None and isinstance(o, (int, float, Fraction)):
            return _lift(o ** c) if not isinstance(o, float) else _lift(lift_float(o) ** c)
        if isinstance(o, int) and o == 2 and self.is_int:
            # 2**k for a symbolic k: only with a small proven range
            return pow2_sym(self)
        raise Unsupported("symbolic exponent")

    # -- bit operations (ints only) ----------------------------------------
    def _need_int(self):
        if not self.is_int:
            raise TypeError("unsupported operand type(s) for bit operation: 'float'")

    def __lshift__(self, o):
        self._need_int()
        k = _const_int(o)
        if k is None:
            o = _lift(o)
            return self * pow2_sym(o)
        if k < 0:
            raise ValueError("negative shift count")
        return SymNum(self.t * _pow2(k), lz=self.lz + k)

    def __rlshift__(self, o):
        self._need_int()
        return _lift(o) * pow2_sym(self)

    def __rshift__(self, o):
        self._need_int()
        k = _const_int(o)
        if k is None:
            o = _lift(o)
            return SymNum._floordiv(self, pow2_sym(o))
        if k < 0:
            raise ValueError("negative shift count")
        if self.bits is not None:
            return _from_bits(list(self.bits[k:]))
        return SymNum(self.t / _pow2(k))

    def __rrshift__(self, o):
        self._need_int()
        return SymNum._floordiv(_lift(o), pow2_sym(self))

    def __and__(self, o):
        self._need_int()
        m = _const_int(o)
        if m is not None:
            if self.bits is not None and m >= 0:
                return _from_bits([b if (m >> i) & 1 else z3.BoolVal(False) for i, b in enumerate(self.bits)])
            return SymNum(_and_const(self.t, m))
        o = _lift(o)
        if o is NotImplemented:
            return NotImplemented
        mc = self.concrete()
        if mc is not None:
            return SymNum(_and_const(o.t, mc))
        return _bitop_sym(self, o, "and")

    __rand__ = __and__

    def __or__(self, o):
        self._need_int()
        m = _const_int(o)
        if m is not None:
            if m == 0:
                return self
            if self.bits is not None and m > 0:
                w = max(len(self.bits), m.bit_length())
                bs = list(self.bits) + [z3.BoolVal(False)] * (w - len(self.bits))
                return _from_bits([z3.BoolVal(True) if (m >> i) & 1 else b for i, b in enumerate(bs)])
            if self.lz and 0 < m < (1 << self.lz):
                return SymNum(self.t + z3.IntVal(m), lz=min(self.lz, (m & -m).bit_length() - 1))
            return SymNum(self.t + z3.IntVal(m) - _and_const(self.t, m))
        o = _lift(o)
        if o is NotImplemented:
            return NotImplemented
        if self.bits is not None and o.bits is not None:
            w = max(len(self.bits), len(o.bits))
            x = list(self.bits) + [z3.BoolVal(False)] * (w - len(self.bits))
            y = list(o.bits) + [z3.BoolVal(False)] * (w - len(o.bits))
            return _from_bits([z3.Or(p, q) for p, q in zip(x, y)])
        return _bitop_sym(self, o, "or")

    __ror__ = __or__

    def __xor__(self, o):
        self._need_int()
        m = _const_int(o)
        if m is not None:
            if m == 0:
                return self
            return SymNum(self.t + z3.IntVal(m) - 2 * _and_const(self.t, m))
        o = _lift(o)
        if o is NotImplemented:
            return NotImplemented
        return _bitop_sym(self, o, "xor")

    __rxor__ = __xor__

    def __invert__(self):
        self._need_int()
        return SymNum(-self.t - 1)

    # -- comparisons --------------------------------------------------------
    def _cmp(self, o, f):
        if isinstance(o, float) and o in (math.inf, -math.inf):
            # a finite number against +-infinity (sentinels such as float("inf") in min/max folds)
            return f(0, 1) if o > 0 else f(1, 0)
        o = _lift(o)
        if o is NotImplemented:
            return NotImplemented
        return SymBool(f(self.t, o.t))

    def __lt__(self, o):
        return self._cmp(o, lambda a, b: a < b)

    def __le__(self, o):
        return self._cmp(o, lambda a, b: a <= b)

    def __gt__(self, o):
        return self._cmp(o, lambda a, b: a > b)

    def __ge__(self, o):
        return self._cmp(o, lambda a, b: a >= b)

    def __eq__(self, o):
        if isinstance(o, (SymComplex, complex)):
            return SymComplex.lift(self) == o
        o = _lift(o)
        if o is NotImplemented:
            return False
        return SymBool(self.t == o.t)

    def __ne__(self, o):
        if isinstance(o, (SymComplex, complex)):
            return SymComplex.lift(self) != o
        o = _lift(o)
        if o is NotImplemented:
            return True
        return SymBool(self.t != o.t)

    def __bool__(self):
        return bool(SymBool(self.t != 0))

    def __hash__(self):
        # Proxies used as dict/set keys all fall into one bucket; CPython then decides
        # membership with __eq__, which forks - exact semantics as long as EVERY key of that
        # container is a proxy (use S.pin for constants).  A container mixing real Python
        # numbers and proxies is out of reach: the use is recorded on the path and reported.
        c = _CTX
        if c is not None:
            c.proxy_hashed = True
        return 0x5EED

    # -- conversions --------------------------------------------------------
    def bit_length(self):
        """int.bit_length(): forks over the (at most 65) possible answers"""
        self._need_int()
        c = self.concrete()
        if c is not None:
            return int(c).bit_length()
        mag = SymNum(z3.If(self.t >= 0, self.t, -self.t))
        for k in range(0, 65):
            if bool(mag < (1 << k)):
                return k
        raise Unsupported("bit_length of an integer beyond 64 bits")

    def is_integer(self):
        """float.is_integer / int.is_integer: a decision on symbolic reals"""
        if self.is_int:
            return True
        return bool(SymBool(self.t == z3.ToReal(z3.ToInt(self.t))))

    def to_bytes(self, length=1, byteorder="big", *, signed=False):
        """int.to_bytes for a non-negative value known (on this path) to fit: big- or little-endian digits.
        OverflowError is raised when the value may not fit, as int.to_bytes would."""
        if not self.is_int or signed:
            raise Unsupported("to_bytes of a non-integer / signed value")
        from .models import SymBytes
        if not bool(SymBool(z3.And(self.t >= 0, self.t < 256 ** length))):
            raise OverflowError("int too big to convert")
        items = [SymNum((self.t / (256 ** (length - 1 - i))) % 256) for i in range(length)]
        if byteorder != "big":
            items.reverse()
        return SymBytes(items)


    def __floor__(self):
        return self if self.is_int else SymNum(z3.ToInt(self.t))

    def __ceil__(self):
        return self if self.is_int else SymNum(-z3.ToInt(-self.t))

    def __trunc__(self):
        if self.is_int:
            return self
        return SymNum(z3.If(self.t >= 0, z3.ToInt(self.t), -z3.ToInt(-self.t)))

    def __round__(self, n=None):
        if n is not None:
            raise Unsupported("round(x, n) on a symbolic value")
        if self.is_int:
            return self
        # round half to even
        fl = z3.ToInt(self.t)
        frac = self.t - z3.ToReal(fl)
        half = _q(Fraction(1, 2))
        return SymNum(z3.If(frac < half, fl, z3.If(frac > half, fl + 1, z3.If(fl % 2 == 0, fl, fl + 1))))

    def __index__(self):
        c = self.concrete()
        if c is not None and self.is_int:
            return c
        if self.is_int:
            return ctx().concretize_int(self)
        raise TypeError("'float' object cannot be interpreted as an integer")

    def __int__(self):
        c = self.concrete()
        if c is not None:
            return int(c)
        raise Unsupported("int() of a symbolic value outside a shadowed namespace")

    def __float__(self):
        c = self.concrete()
        if c is not None:
            return float(c)
        raise Unsupported("float() of a symbolic value outside a shadowed namespace")

    def conjugate(self):
        return self

    @property
    def real_part(self):
        return self

    def __repr__(self):
        return "SymNum(%s)" % _simp(self.t)

    def __str__(self):
        ctx().note_stringified()
        return "<sym %s>" % _simp(self.t)

    def __format__(self, spec):
        ctx().note_stringified()
        return "<sym %s>" % _simp(self.t)

    def __deepcopy__(self, memo):
        return self

    def __copy__(self):
        return self


def _bytes_times(b, n: "SymNum"):
    """b * n for a symbolic count: concrete when n is; NUL padding of symbolic length is a
    zero Blob (negative counts give the empty string, as in Python)."""
    if not n.is_int:
        raise TypeError("can't multiply sequence by non-int of type 'float'")
    c = n.concrete()
    if c is not None:
        return bytes(b) * c
    from .blobs import Blob

    if bool(n <= 0):
        return b""
    if bytes(b) == b"\0":
        return Blob.zeros(n)
    raise Unsupported("repetition of a non-NUL byte string by a symbolic count")


def _const_int(o):
    if isinstance(o, bool):
        return int(o)
    if isinstance(o, int):
        return o
    if isinstance(o, SymNum) and o.is_int:
        return o.concrete()
    return None


def _and_const(t, m: int):
    """t & m for a constant mask m (any sign), exact for every integer t."""
    if m == 0:
        return z3.IntVal(0)
    if m < 0:
        # t & m == t - (t & ~m), ~m >= 0
        return t - _and_const(t, ~m)
    total = None
    bit = 0
    while (1 << bit) <= m:
        if m >> bit & 1:
            end = bit
            while m >> end & 1:
                end += 1
            # bits [bit, end)
            part = ((t / _pow2(bit)) % _pow2(end - bit)) * _pow2(bit) if bit else (t % _pow2(end))
            total = part if total is None else total + part
            bit = end
        else:
            bit += 1
    return total


def _pow2_factor(t):
    """k if the term is syntactically  x * 2**k  (k > 0), else 0."""
    t = z3.simplify(t)
    if z3.is_mul(t) and t.num_args() == 2:
        for i in (0, 1):
            a = t.arg(i)
            if z3.is_int_value(a):
                v = a.as_long()
                if v > 1 and v & (v - 1) == 0:
                    return v.bit_length() - 1
    return 0


def _bitop_sym(a: SymNum, b: SymNum, op: str, width: int = 32):
    """a <op> b for two symbolic ints.  Disjoint bit ranges (x*2**k combined with
    0 <= y < 2**k, proved on this path) are exact sums; otherwise both operands must be
    provably within 0 <= x < 2**width (emitted side obligation) and bit-vectors are used."""
    c = ctx()
    for x, y in ((a, b), (b, a)):
        k = x.lz or _pow2_factor(x.t)
        if k and c.proves(z3.And(y.t >= 0, y.t < _pow2(k))):
            if op in ("or", "xor"):
                return SymNum(x.t + y.t, lz=min(x.lz, y.lz) if (x.lz and y.lz) else 0)
            return SymNum(z3.IntVal(0))
    c.require(z3.And(a.t >= 0, a.t < _pow2(width), b.t >= 0, b.t < _pow2(width)),
              "bit-op operands within 0..2**%d" % width)
    w = None
    for cand in (8, 16, 32):
        if c.proves(z3.And(a.t >= 0, a.t < _pow2(cand), b.t >= 0, b.t < _pow2(cand))):
            w = cand
            break
    if w is None:
        c.require(z3.BoolVal(False), "bit-op operands within 0..2**32")
    ba, bb = _bits_of(a, w), _bits_of(b, w)
    f = {"and": z3.And, "or": z3.Or, "xor": z3.Xor}[op]
    return _from_bits([z3.simplify(f(x, y)) for x, y in zip(ba, bb)])


def _from_bits(bits):
    t = z3.IntVal(0)
    for i, b in enumerate(bits):
        t = t + z3.If(b, z3.IntVal(1 << i), z3.IntVal(0))
    return SymNum(z3.simplify(t), bits=tuple(bits))


def _bits_of(x: SymNum, w: int):
    """Bits (LSB first) of a value proved to lie in 0..2**w: known bits, or fresh Bools
    tied to the value by one equation (the binary representation is unique)."""
    if x.bits is not None:
        bs = list(x.bits[:w])
        return bs + [z3.BoolVal(False)] * (w - len(bs))
    xc = x.concrete()
    if xc is not None:
        return [z3.BoolVal(bool((xc >> i) & 1)) for i in range(w)]
    c = ctx()
    cache = getattr(c, "_bitcache", None)
    if cache is None:
        cache = c._bitcache = {}
    key = (z3.simplify(x.t).get_id(), w)
    if key in cache:
        return cache[key]
    bs = [c.fresh_bool("bit").t for _ in range(w)]
    t = z3.IntVal(0)
    for i, b in enumerate(bs):
        t = t + z3.If(b, z3.IntVal(1 << i), z3.IntVal(0))
    c.assume_term(t == x.t)
    cache[key] = bs
    return bs


def pow2_sym(k: SymNum, limit: int = 64):
    """2**k for symbolic int k: the range 0 <= k <= limit is a side obligation."""
    kc = k.concrete()
    if kc is not None:
        if kc < 0:
            raise ValueError("negative shift count")
        return SymNum(_pow2(kc))
    c = ctx()
    c.require(z3.And(k.t >= 0, k.t <= limit), "shift/exponent within 0..%d" % limit)
    t = z3.IntVal(1 << limit)
    for i in range(limit - 1, -1, -1):
        t = z3.If(k.t == i, z3.IntVal(1 << i), t)
    return SymNum(t)


# --------------------------------------------------------------------------
# complex numbers as pairs of reals



class SymFloat(SymNum):
    """A real taken out of an array('d').  `int(x) if x.is_integer() else x` (GlyphCoordinates)
    only changes the Python TYPE of an integral value, never the number; under A-REAL the
    int/float distinction of equal numbers is not modelled, so the test answers False without
    forking (2 paths per coordinate read otherwise).  Arithmetic gives plain SymNum back."""
    __slots__ = ()

    def is_integer(self):
        return False


class SymComplex:
    __slots__ = ("re", "im")

    def __init__(self, re, im):
        self.re = _lift(re)
        self.im = _lift(im)

    @staticmethod
    def lift(x):
        if isinstance(x, SymComplex):
            return x
        if isinstance(x, complex):
            return SymComplex(x.real, x.imag)
        n = _lift(x)
        if n is NotImplemented:
            return NotImplemented
        return SymComplex(n, 0)

    @property
    def real(self):
        return SymNum(self.re.real())

    @property
    def imag(self):
        return SymNum(self.im.real())

    def conjugate(self):
        return SymComplex(self.re, -self.im)

    def __add__(self, o):
        o = SymComplex.lift(o)
        if o is NotImplemented:
            return NotImplemented
        return SymComplex(self.re + o.re, self.im + o.im)

    __radd__ = __add__

    def __sub__(self, o):
        o = SymComplex.lift(o)
        if o is NotImplemented:
            return NotImplemented
        return SymComplex(self.re - o.re, self.im - o.im)

    def __rsub__(self, o):
        o = SymComplex.lift(o)
        if o is NotImplemented:
            return NotImplemented
        return SymComplex(o.re - self.re, o.im - self.im)

    def __mul__(self, o):
        o = SymComplex.lift(o)
        if o is NotImplemented:
            return NotImplemented
        return SymComplex(self.re * o.re - self.im * o.im, self.re * o.im + self.im * o.re)

    __rmul__ = __mul__

    def __truediv__(self, o):
        o = SymComplex.lift(o)
        if o is NotImplemented:
            return NotImplemented
        den = o.re * o.re + o.im * o.im
        num = self * o.conjugate()
        return SymComplex(num.re / den, num.im / den)

    def __rtruediv__(self, o):
        o = SymComplex.lift(o)
        if o is NotImplemented:
            return NotImplemented
        return o / self

    def __neg__(self):
        return SymComplex(-self.re, -self.im)

    def __pos__(self):
        return self

    def __abs__(self):
        # r >= 0 and r*r == re^2 + im^2 : the real square root exists and is unique
        c = ctx()
        r = c.fresh_real("abs")
        sq = self.re * self.re + self.im * self.im
        c.assume_term(z3.And(r.t >= 0, r.t * r.t == sq.real()))
        return r

    def __eq__(self, o):
        o = SymComplex.lift(o)
        if o is NotImplemented:
            return False
        return SymBool(z3.And(self.re.real() == o.re.real(), self.im.real() == o.im.real()))

    def __ne__(self, o):
        o = SymComplex.lift(o)
        if o is NotImplemented:
            return True
        return SymBool(z3.Or(self.re.real() != o.re.real(), self.im.real() != o.im.real()))

    def __bool__(self):
        return bool(self != 0)

    def __hash__(self):
        raise Unsupported("hash of a symbolic complex")

    def __repr__(self):
        return "SymComplex(%s, %s)" % (_simp(self.re.t), _simp(self.im.t))

    def __deepcopy__(self, memo):
        return self

    def __copy__(self):
        return self


# --------------------------------------------------------------------------
# non-forking helpers for contract predicates


def And(*xs):
    ts = []
    for x in xs:
        if isinstance(x, SymBool):
            ts.append(x.t)
        elif isinstance(x, bool):
            if not x:
                return False
        else:
            if not bool(x):
                return False
    if not ts:
        return True
    return SymBool(z3.And(*ts))


def Or(*xs):
    ts = []
    for x in xs:
        if isinstance(x, SymBool):
            ts.append(x.t)
        elif isinstance(x, bool):
            if x:
                return True
        else:
            if bool(x):
                return True
    if not ts:
        return False
    return SymBool(z3.Or(*ts))


def Not(x):
    if isinstance(x, SymBool):
        return SymBool(z3.Not(x.t))
    return not x


def Implies(a, b):
    return Or(Not(a), b)


def Ite(c, a, b):
    """Non-forking conditional over numbers."""
    if isinstance(c, bool):
        return a if c else b
    la, lb = _lift(a), _lift(b)
    ta, tb = la.t, lb.t
    if la.is_int != lb.is_int:
        ta, tb = la.real(), lb.real()
    return SymNum(z3.If(c.t, ta, tb))
